#!/usr/bin/env python3
"""Regenerates MANIFEST.json from the table below (claims) and properties.jsonl (everything else -> not_applicable)."""
import json, subprocess

CLAIMS = {
 "C13": dict(
   text="Proof of absence of panics for arbitrary input: every panic site (nil dereference, index/slice bounds, make with a bad length, failed type assertion, explicit panic, log.Panic, nil-map write, negative shift) in the native primitive codec, every value decoder of channel/wallet/wire, all 15 client message decoders, the native envelope decoder, the sim backend unmarshalers and the protobuf-to-domain conversions is an obligation 'unreachable', discharged with every primitive read returning an error or an arbitrary value of its full range; decoders with loops carry invariants; postconditions prove the documented limits on success (assets, participants, sub-allocations via Allocation.Valid and explicit checks; big-integer byte length <= MaxBigIntLength). perunio.Decode's variadic type switch is executed exactly per call site (concrete argument types), not modelled. Counterexamples of failed panic obligations in decoders are turned into byte strings and replayed on the real decoder (this found and confirmed the unknown-backend-id and negative-length defects, now fixed).",
   note="Trusted: proto.Unmarshal and generated getters; third-party UnmarshalBinary/Decode of unknown dynamic types; start-up configuration (a channel backend registered, NewAppID/Resolve/wire.NewAddress non-nil or error, registries hold non-nil entries); frames of the protobuf leaf conversions (noframe). Termination argued (counted loops over limit-checked lengths), memory exhaustion not an obligation.",
   design="4/C13"),
 "C01": dict(
   text="Proof: the object invariant machInv of the channel state machine (every non-nil staged signature slot is authenticated for exactly the staged state - verified against every address of that participant, or produced by channel.Sign in the own slot; the current transaction's slots are either all filled and authenticated for exactly the current state, or all nil) is established by newMachine and required/ensured by every machine and StateMachine operation, on success and on error, in every phase, for all arguments. The per-method postconditions show the current transaction changes only by promotion of a fully signed staged transaction or by SetProgressed (the all-nil alternative = adopted from a progression event). Arbitrary call sequences follow by induction; a writes-closure side check shows no other code writes the fields.",
   note="Trusted: channel.Verify/Sign as pure functions (verifyOK/ownSig), go/ssa, govc's instruction model, SMT solvers. Assumes states and signature slices handed to the machine are not mutated afterwards; ForceUpdate only with an existing current state (as the property's quantifier says); restoreMachine's source satisfies the invariant (not under contract); ActionMachine not under contract.",
   design="4/C01"),
 "C02": dict(
   text="Proof: machine.ValidTransition returns nil if and only if the candidate carries the channel id and app, follows a non-final state, has exactly the next version, is a valid allocation (dimensions, limits, non-negative amounts: Allocation.Valid/SubAlloc.Valid proved as iff against validAlloc), keeps the asset list and satisfies the sum relation; StateMachine.validTransition adds 'actor is an existing participant' and the app rule; Update and CheckUpdate succeed iff that holds (Update additionally phase Acting) and otherwise change nothing; newState/Init produce version 0, the channel id and a valid allocation with one balance per participant or fail. Sig signs only the staged state and channel.Sign has no other call site, so refused candidates are never signed.",
   note="NOT yet discharged in this round: the arithmetic of the per-asset totals - polybig.EqualSum/Allocation.Sum/Balances.Sum are represented by a trusted ghost relation (sumsEqAlloc) returned by EqualSum; the payment app (nil iff no balance of the actor grows and no other balance shrinks) and the no-app are verified against the preconditions the interface contract gives them, but that their rule equals the ghost appTransOK used by validTransition is by reading, not a refinement check. Assumes the current state is a valid allocation with one column per participant (ensured for states staged by Init/Update; ForceUpdate/restore are outside the regular path) with version < 2^64-1 and non-nil balances/assets; payment data is NoData.",
   design="4/C02"),
 "C08": dict(
   text="Proof (per function, all inputs): validTwoPartyProposal returns nil only if every condition of the statement holds for the received proposal (at least two participants, non-zero challenge duration, valid and unlocked initial allocation, peers equal to (sender, receiver) in protocol order, known parent; sub-channel: parent's assets and parent balances covering the initial balances; virtual channel: two parents, two index maps of length two with entries in range, funding agreement equal to the initial balances, parent with equal assets and backends). The user's ProposalHandler.HandleProposal carries that predicate as precondition and a call-site closure shows handleChannelProposal is its only caller, so a malformed proposal is dropped before the handler runs; completeCPP passes to the parameter constructor exactly (proposal's duration, app, aux, [proposer participant, responder participant], nonce of (proposer share, responder share), flags by proposal kind) independent of the own index, so both sides derive identical parameters and ID and the ID depends on both nonce shares. Not decided here: schedules of the opening protocol and the signature exchange producing the fully signed version-0 state (per-side state machine facts are C01/C09); completeCPP after parameter construction.",
   note="Trusted: chanRegistry.Channel returns well-formed two-party channels with a valid current state (client invariant chanWF, not re-proved), decoder postconditions of C13 as preconditions, calcNonce (SHA3 over proposer share then responder share), multi.IsMultiLedgerAssets, sealed sets of proposal/accept kinds; completeCPP verified only up to NewParams (cutafter). Sequential semantics; no schedule exploration.",
   design="4/C08"),
 "C09": dict(
   text="Proof: every operation of the channel state machine (machine.go) is verified, for all pre-states satisfying the machine's object invariant and all arguments, against a contract taken from the property statement: success <=> documented phase/signature/final-flag precondition, success => documented target phase and effect, failure => phase, staged and current transaction (including signature list contents) unchanged, own signatures only in signing phases over the staged state. The phase tables are proved from the package initialiser and shown read-only; arbitrary call sequences follow by induction over the invariant.",
   note="Trusted: go/ssa, govc's instruction model, SMT solvers, library specs (pkg/errors, logging), channel.Sign/Verify as pure functions of (address, state, signature); assumes states/signature slices handed to the machine are not mutated afterwards and candidate states are non-nil. Sequential semantics.",
   design="4/C09"),
 "C15": dict(
   text="Proof of the comparison half (E1): every comparison function of package channel (SubAlloc.Equal/BalancesEqual/indexMapEqual, SubAllocsAssertEqual/Equal, Balances.AssertEqual/Equal, AssertAssetsEqual, AssertBackendsEqual, Allocation.Equal) returns 'equal' if and only if the field-wise specification over all transmitted fields holds (ids, every balance value, every asset, every backend id, every locked id/amount/index-map entry, all dimensions), for all inputs, with loop invariants. This is what exposed (and now guards the repair of) SubAlloc.Equal ignoring the index map.",
   note="Not yet under contract in this round: State.Equal, the encoder side (every Encode emits exactly the compared fields) and the sim backend's Sign/Verify feeding exactly the state encoding; cryptographic strength is assumed. Asset.Equal is an assumed pure equivalence (interface contract); balances/assets non-nil.",
   design="4/C15"),
 "C19": dict(
   text="Proof: CloneBals, CloneIndexMap, Balances.Clone, NewSubAlloc, Allocation.Clone, State.Clone, Transaction.Clone, wallet.CloneSigs, wallet.CloneAddressesMap, channel.CloneAddresses, Params.Clone, machine.Clone, StateMachine.Clone each return a value with an equal view in which every mutable location reachable from the clone (slice backing arrays, big integers, maps, signature byte arrays, nonce, interface payloads) is allocated during the call; frame obligations prove the original heap untouched. Fresh objects plus untouched old heap imply no later write through one side is visible through the other. Loop invariants carry the per-element facts for all lengths.",
   note="Assumed: Data.Clone and wallet.CloneAddress (marshal/unmarshal via backend registry) satisfy their interface contract (fresh, equal encoding); inputs non-nil where the code dereferences them. App, Asset values, accounts shared as documented. machine.prevTXs (debug history) only proved fresh, ActionMachine.Clone and persistence.CloneSource/FromSource not yet under contract.",
   design="4/C19"),
}

NA = {
 "C04": "Timing and schedule property of two processes and an external ledger (an outdated registration at any moment, refuted before the challenge period ends); no contract on a function of this repository can state or decide it. Its sequential mechanisms are obligations of C05/C06.",
}

def main():
    ids = [json.loads(l)["id"] for l in open("/verif/properties.jsonl")]
    src = subprocess.run(["git", "-C", "/repo", "log", "--format=%H %s"], capture_output=True, text=True).stdout.splitlines()
    hooks = [l.split()[0] for l in src if "verif hook" in l]
    m = {
     "version": 1,
     "setup_cmd": "/verif/verif setup",
     "hooks": {"guard": "verif", "enable": "go build -tags verif ./... (contract files zz_verif_contracts*.go: comments only, read by govc through go/packages with -tags=verif)",
               "baseline_off_cmd": "cd /repo && GOFLAGS=-mod=mod GOPROXY=off GOSUMDB=off go test -vet=off -count=1 -timeout 25m ./...",
               "source_commits": hooks, "add_only": True},
     "engines": [{"name": "govc", "path": "/verif/govc", "serves_properties": sorted(CLAIMS),
                  "kind_free_text": "contract-based deductive verifier for Go written for this task: go/packages + go/ssa (naive form) -> forward symbolic execution against //@ contracts kept in /repo/**/zz_verif_contracts.go -> SMT-LIB obligations discharged by z3 5.1.0 / z3 4.8.12 / cvc5 1.0.3"}],
     "checks": [],
     "notes": "See DESIGN.md. Every check regenerates all obligations from /repo's working tree. Known findings: /verif/known_findings.txt.",
     "not_applicable": [],
    }
    for i in ids:
        if i in CLAIMS:
            c = CLAIMS[i]
            m["checks"].append({
              "property_id": i,
              "quick_cmd": "/verif/verif check %s --tier quick" % i,
              "thorough_cmd": "/verif/verif check %s --tier thorough" % i,
              "evidence_file": "/verif/evidence/%s.json" % i,
              "engine": "govc",
              "level_claimed": {"category": "proof", "text": c["text"], "design_ref": c["design"]},
              "level_note": c["note"],
              "technique": "contract-based deductive verification: weakest-precondition style VCs generated from go/ssa of the real code against //@ contracts, discharged by SMT (z3/cvc5)",
            })
        else:
            m["not_applicable"].append({"property_id": i, "reason": NA.get(i, "not built yet in this round (engine and contracts under construction); DESIGN.md section 4 describes the planned contracts")})
    json.dump(m, open("/verif/MANIFEST.json", "w"), indent=1)

main()
