package eng

import (
	"sort"
	"fmt"
	"go/ast"
	"go/constant"
	"go/parser"
	"go/types"
	"math/big"
	"strings"

	"golang.org/x/tools/go/ssa"
)

// specCtx is the evaluation context of a spec expression.
type specCtx struct {
	e        *Engine
	st       *State
	heap     map[string]*Term // heap used for reads (current or old)
	oldHeap  map[string]*Term // heap denoted by old(...)
	oldAlloc *Term            // allocation counter at the old state (for fresh)
	env      map[string]specBind
	pkg      *types.Package
	frame    *Frame // for local variable lookup in loop invariants (may be nil)
	loopCtx  *LoopCtx
	sumDepth int              // nesting depth of sumof (canonical summation variables)
	ghost    map[string]*Term // ghost state used for reads (nil: the current state's)
	oldGhost map[string]*Term // ghost state denoted by old(...) (nil: the entry state, i.e. the initial constants)
	inOld    bool
	depth    int
	// case split of the outermost universally quantified index variable against the index just processed
	splitMode int // 0 none, 1: variable == splitTerm, 2: variable != splitTerm
	splitTerm *Term
}

// tryEvalPtr evaluates x if it denotes a pointer-typed value (used by & to find the base of a selector chain).
func (c *specCtx) tryEvalPtr(x SExpr) (v Val, t types.Type, ok bool) {
	defer func() {
		if r := recover(); r != nil {
			if _, isSE := r.(specErr); isSE {
				ok = false
				return
			}
			panic(r)
		}
	}()
	v, t = c.eval(x)
	if t == nil {
		return v, t, false
	}
	_, ok = t.Underlying().(*types.Pointer)
	return v, t, ok
}

// ghostArr returns the ghost array of the given name in the state the context reads (current, or old inside old(...)).
func (c *specCtx) ghostArr(name string, sort Sort) *Term {
	var m map[string]*Term
	switch {
	case c.inOld:
		m = c.oldGhost
	case c.ghost != nil:
		m = c.ghost
	default:
		m = c.st.Ghost
	}
	if t, ok := m[name]; ok {
		return t
	}
	return c.e.tb.Const("G0!"+name, sort)
}

type specBind struct {
	V Val
	T types.Type
}

type specErr struct{ msg string }

func (c *specCtx) fail(format string, args ...interface{}) {
	panic(specErr{fmt.Sprintf(format, args...)})
}

var untypedInt = types.Typ[types.UntypedInt]
var untypedNil = types.Typ[types.UntypedNil]
var boolType = types.Typ[types.Bool]

func (c *specCtx) with(env map[string]specBind) *specCtx {
	n := *c
	n.env = env
	return &n
}

func (c *specCtx) bind(name string, v Val, t types.Type) *specCtx {
	ne := make(map[string]specBind, len(c.env)+1)
	for k, x := range c.env {
		ne[k] = x
	}
	ne[name] = specBind{v, t}
	return c.with(ne)
}

// H reads a heap class in the context's heap.
func (c *specCtx) H(class string, s Sort) *Term {
	c.e.classSort(class, s)
	if t, ok := c.heap[class]; ok {
		return t
	}
	c.e.initAxiom(c.st, class, s)
	return c.e.tb.Const("H!"+class, s)
}

// evalBool evaluates a clause to a boolean term.
func (c *specCtx) evalBool(x SExpr) *Term {
	v, _ := c.eval(x)
	if len(v.T) != 1 || v.T[0].Sort != SBool {
		c.fail("spec expression is not boolean")
	}
	return v.T[0]
}

func (c *specCtx) resolveType(s string) types.Type {
	return c.e.resolveType(c.pkg, s)
}

// resolveType resolves a Go type expression in the scope of pkg (imports by package name).
func (e *Engine) resolveType(pkg *types.Package, s string) types.Type {
	ex, err := parser.ParseExpr(s)
	if err != nil {
		panic(specErr{"cannot parse type " + s})
	}
	var rec func(x ast.Expr) types.Type
	rec = func(x ast.Expr) types.Type {
		switch t := x.(type) {
		case *ast.Ident:
			if o := types.Universe.Lookup(t.Name); o != nil {
				if tn, ok := o.(*types.TypeName); ok {
					return tn.Type()
				}
			}
			if o := pkg.Scope().Lookup(t.Name); o != nil {
				if tn, ok := o.(*types.TypeName); ok {
					return tn.Type()
				}
			}
			panic(specErr{"unknown type " + t.Name})
		case *ast.SelectorExpr:
			pn := t.X.(*ast.Ident).Name
			// several packages may carry the name (e.g. channel and backend/sim/channel): the first one that declares the type
			var cands []*types.Package
			if pkg.Name() == pn {
				cands = append(cands, pkg)
			}
			for _, imp := range pkg.Imports() {
				if imp.Name() == pn {
					cands = append(cands, imp)
				}
			}
			var names []string
			for k := range e.Pkgs {
				names = append(names, k)
			}
			sort.Slice(names, func(i, j int) bool {
				if len(names[i]) != len(names[j]) {
					return len(names[i]) < len(names[j])
				}
				return names[i] < names[j]
			})
			for _, k := range names {
				if p := e.Pkgs[k]; p.Types.Name() == pn {
					cands = append(cands, p.Types)
				}
			}
			// prefer the non-current package when the type is not declared in the current one
			for _, p := range cands {
				if o := p.Scope().Lookup(t.Sel.Name); o != nil {
					if tn, ok := o.(*types.TypeName); ok {
						return tn.Type()
					}
				}
			}
			panic(specErr{"unknown type " + pn + "." + t.Sel.Name})
		case *ast.StarExpr:
			return types.NewPointer(rec(t.X))
		case *ast.ArrayType:
			if t.Len == nil {
				return types.NewSlice(rec(t.Elt))
			}
			if bl, ok := t.Len.(*ast.BasicLit); ok {
				var n int64
				fmt.Sscan(bl.Value, &n)
				return types.NewArray(rec(t.Elt), n)
			}
		case *ast.MapType:
			return types.NewMap(rec(t.Key), rec(t.Value))
		case *ast.InterfaceType:
			return types.NewInterfaceType(nil, nil)
		case *ast.ParenExpr:
			return rec(t.X)
		}
		panic(specErr{"unsupported type expression " + s})
	}
	return rec(ex)
}

func (e *Engine) findPkgByName(from *types.Package, name string) *types.Package {
	if from.Name() == name {
		return from
	}
	for _, imp := range from.Imports() {
		if imp.Name() == name {
			return imp
		}
	}
	// any loaded package with that name (prefer repo packages)
	var cand *types.Package
	for _, p := range e.Pkgs {
		if p.Types.Name() == name {
			if isRepoPkg(p.Types) && (cand == nil || len(p.Types.Path()) < len(cand.Path())) {
				cand = p.Types
			} else if cand == nil {
				cand = p.Types
			}
		}
	}
	return cand
}

func (c *specCtx) eval(x SExpr) (Val, types.Type) {
	tb := c.e.tb
	switch n := x.(type) {
	case *SNum:
		bi, ok := new(big.Int).SetString(n.V, 0)
		if !ok {
			c.fail("bad number %s", n.V)
		}
		return scalar(tb.BigInt(bi)), untypedInt
	case *SStr:
		return scalar(tb.Int(c.e.strID(n.V))), types.Typ[types.String]
	case *SIdent:
		return c.ident(n.Name)
	case *SSum:
		nv, _ := c.eval(n.N)
		kv := tb.SumVar(c.sumDepth)
		sc := *c
		sc.sumDepth = c.sumDepth + 1
		sc.env = map[string]specBind{}
		for k2, v2 := range c.env {
			sc.env[k2] = v2
		}
		sc.env[n.Var] = specBind{scalar(kv), types.Typ[types.Int]}
		bv, _ := sc.eval(n.Body)
		if len(bv.T) != 1 || bv.T[0].Sort != SInt {
			c.fail("sumof: the summand must be an integer expression")
		}
		return scalar(tb.Psum(tb.SumArr(kv, bv.T[0]), nv.T[0])), untypedInt
	case *SOld:
		oc := *c
		oc.heap = c.oldHeap
		oc.ghost = c.oldGhost
		oc.inOld = true
		return oc.eval(n.X)
	case *SUn:
		if n.Op == "&" {
			// address of a field of a heap object: &p.f
			sel, ok := n.X.(*SSel)
			if !ok {
				c.fail("& needs a field selector")
			}
			// selector chain p.f.g...: walk down to the pointer-typed base, then follow the struct-valued fields
			var names []string
			var base SExpr = sel
			var bv Val
			var bt types.Type
			for {
				s2, ok := base.(*SSel)
				if !ok {
					c.fail("& of a field of a non-pointer")
				}
				names = append([]string{s2.Name}, names...)
				v2, t2, ok2 := c.tryEvalPtr(s2.X)
				if ok2 {
					bv, bt = v2, t2
					break
				}
				base = s2.X
			}
			p := bt.Underlying().(*types.Pointer)
			px := c.e.ptrOf(bv, p.Elem())
			np := *px
			var T types.Type = p.Elem()
			for _, nm := range names {
				st, ok := T.Underlying().(*types.Struct)
				if !ok {
					c.fail("&: %s is not a struct", T)
				}
				found := false
				for i := 0; i < st.NumFields(); i++ {
					if st.Field(i).Name() == nm {
						np.Path += "." + nm
						T = st.Field(i).Type()
						found = true
						break
					}
				}
				if !found {
					c.fail("&: cannot resolve direct field %s", nm)
				}
			}
			np.PType = T
			return Val{T: []*Term{tb.Int(-3)}, Ann: map[string]Ann{"": &np}}, types.NewPointer(T)
		}
		v, t := c.eval(n.X)
		if n.Op == "*" {
			p, ok := t.Underlying().(*types.Pointer)
			if !ok {
				c.fail("dereference of non-pointer %s", t)
			}
			return c.loadPx(c.e.ptrOf(v, p.Elem()), p.Elem()), p.Elem()
		}
		if n.Op == "!" {
			return scalar(tb.Not(v.T[0])), boolType
		}
		return scalar(tb.Neg(v.T[0])), t
	case *SCond:
		cd := c.evalBool(n.C)
		a, ta := c.eval(n.A)
		b, _ := c.eval(n.B)
		if len(a.T) != len(b.T) {
			c.fail("conditional branches differ in shape")
		}
		out := Val{T: make([]*Term, len(a.T))}
		for i := range a.T {
			out.T[i] = tb.Ite(cd, a.T[i], b.T[i])
		}
		return out, ta
	case *SBin:
		return c.binary(n)
	case *SQuant:
		nc := c
		var vars []*Term
		mode := 0
		if n.Forall && c.splitMode != 0 {
			mode = c.splitMode
			cc := *c
			cc.splitMode = 0
			nc = &cc
		}
		var splitVar *Term
		for pi, p := range n.Vars {
			T := c.resolveType(p.Type)
			ls := Leaves(T)
			if pi == 0 && mode == 1 && len(ls) == 1 && ls[0].Sort == SInt {
				nc = nc.bind(p.Name, scalar(c.splitTerm), T)
				continue
			}
			v := Val{T: make([]*Term, len(ls))}
			for i, l := range ls {
				v.T[i] = tb.BoundVar(p.Name+l.Path, l.Sort)
				vars = append(vars, v.T[i])
			}
			if pi == 0 && mode == 2 && len(ls) == 1 && ls[0].Sort == SInt {
				splitVar = v.T[0]
			}
			nc = nc.bind(p.Name, v, T)
		}
		if splitVar != nil {
			k := [2]int{splitVar.ID, c.splitTerm.ID}
			if k[0] > k[1] {
				k[0], k[1] = k[1], k[0]
			}
			if tb.Distinct == nil {
				tb.Distinct = map[[2]int]bool{}
			}
			tb.Distinct[k] = true
			defer delete(tb.Distinct, k)
		}
		body := nc.evalBool(n.Body)
		if splitVar != nil {
			body = tb.Implies(tb.Neq2(splitVar, c.splitTerm), body)
		}
		if len(vars) == 0 {
			return scalar(body), boolType
		}
		var pats [][]*Term
		for _, p := range n.Pats {
			var pt []*Term
			for _, q := range p {
				v, _ := nc.eval(q)
				pt = append(pt, v.T...)
			}
			pats = append(pats, pt)
		}
		if n.Forall {
			return scalar(tb.Forall(vars, body, pats...)), boolType
		}
		return scalar(tb.Exists(vars, body, pats...)), boolType
	case *SSel:
		// package-qualified identifier?
		if id, ok := n.X.(*SIdent); ok {
			if _, bound := c.env[id.Name]; !bound && c.lookupLocal(id.Name) == nil {
				if o := c.pkg.Scope().Lookup(id.Name); o == nil {
					if p := c.e.findPkgByName(c.pkg, id.Name); p != nil {
						return c.pkgObject(p, n.Name)
					}
				}
			}
		}
		v, t := c.eval(n.X)
		return c.selectField(v, t, n.Name)
	case *SIndex:
		v, t := c.eval(n.X)
		iv, _ := c.eval(n.I)
		return c.indexVal(v, t, iv)
	case *SSlice:
		v, t := c.eval(n.X)
		if _, ok := t.Underlying().(*types.Slice); !ok {
			c.fail("slice expression on non-slice")
		}
		lo := tb.Int(0)
		hi := v.slLen()
		if n.Lo != nil {
			l, _ := c.eval(n.Lo)
			lo = l.T[0]
		}
		if n.Hi != nil {
			h, _ := c.eval(n.Hi)
			hi = h.T[0]
		}
		return Val{T: []*Term{v.slArr(), tb.Add(v.slOff(), lo), tb.Sub(hi, lo), tb.Sub(v.slCap(), lo)}}, t
	case *SCall:
		return c.call(n)
	}
	c.fail("unsupported spec expression %T", x)
	return Val{}, nil
}

func (c *specCtx) lookupLocal(name string) *specBind {
	if c.frame == nil {
		return nil
	}
	best := -1
	var bt types.Type
	for al, id := range c.frame.Cells {
		if al.Comment == name && id > best {
			best = id
			bt = al.Type().(*types.Pointer).Elem()
		}
	}
	if best < 0 {
		// heap-allocated locals (address taken or captured): registers holding their references
		var bestAl *ssa.Alloc
		for v := range c.frame.Regs {
			if al, ok := v.(*ssa.Alloc); ok && al.Heap && al.Comment == name {
				if bestAl == nil || al.Pos() > bestAl.Pos() {
					bestAl = al
				}
			}
		}
		if bestAl == nil {
			return nil
		}
		T := bestAl.Type().(*types.Pointer).Elem()
		pv := c.frame.Regs[bestAl]
		if _, isLocal := pv.ann("").(*PtrX); isLocal {
			px := pv.ann("").(*PtrX)
			if px.Kind == PLocal {
				cc := c.st.Cells[px.Cell]
				if cc.Spill != nil {
					return nil
				}
				return &specBind{cc.V, T}
			}
		}
		v := c.loadPx(c.e.ptrOf(pv, T), T)
		return &specBind{v, T}
	}
	cc := c.st.Cells[best]
	if cc.Spill != nil {
		return nil
	}
	return &specBind{cc.V, bt}
}

func (c *specCtx) ident(name string) (Val, types.Type) {
	tb := c.e.tb
	if b, ok := c.env[name]; ok {
		return b.V, b.T
	}
	switch name {
	case "true":
		return scalar(tb.True()), boolType
	case "false":
		return scalar(tb.False()), boolType
	case "nil":
		return scalar(tb.Int(0)), untypedNil
	case "$alloc":
		return scalar(c.st.Alloc), untypedInt
	}
	if b := c.lookupLocal(name); b != nil {
		return c.e.flatten(c.st, b.T, b.V), b.T
	}
	if strings.HasPrefix(name, "$") && c.frame != nil {
		// $iN : loop N of this function: completed iterations when N is the loop the invariant belongs to, else (an enclosing
		// loop, whose iteration is in progress) the index of the iteration in progress
		if len(name) > 2 && strings.HasPrefix(name, "$i") {
			var n int
			if _, err := fmt.Sscanf(name[2:], "%d", &n); err == nil && n > 0 {
				for _, lc := range c.frame.Active {
					if lc == nil || lc.Ord != n || lc.Info == nil {
						continue
					}
					for _, in := range lc.Info.Header.Instrs {
						if ld, ok := in.(*ssa.UnOp); ok {
							if al, ok := ld.X.(*ssa.Alloc); ok && (al.Comment == "rangeindex" || al.Comment == "rangeint.iter") {
								if id, ok := c.frame.Cells[al]; ok {
									cur := c.st.Cells[id].V.T[0]
									if al.Comment == "rangeindex" && c.loopCtx != nil && c.loopCtx.Ord == n {
										return scalar(tb.Add(cur, tb.Int(1))), untypedInt
									}
									return scalar(cur), untypedInt
								}
							}
						}
					}
				}
				c.fail("%s: loop %d is not active here", name, n)
			}
		}
		// $i : completed iterations of the innermost range loop = rangeindex + 1
		if name == "$i" {
			if c.loopCtx != nil && c.loopCtx.Info != nil {
				for _, in := range c.loopCtx.Info.Header.Instrs {
					if ld, ok := in.(*ssa.UnOp); ok {
						if al, ok := ld.X.(*ssa.Alloc); ok && (al.Comment == "rangeindex" || al.Comment == "rangeint.iter") {
							if id, ok := c.frame.Cells[al]; ok {
								if al.Comment == "rangeint.iter" {
									// range-over-int: the iteration variable counts completed iterations at the loop head
									return scalar(c.st.Cells[id].V.T[0]), untypedInt
								}
								return scalar(tb.Add(c.st.Cells[id].V.T[0], tb.Int(1))), untypedInt
							}
						}
					}
				}
			}
			// range-over-int loops whose body does not use the counter load it only at the end of the body: look in all blocks
			if c.loopCtx != nil && c.loopCtx.Info != nil && c.loopCtx.Info.Kind != "rangeindex" {
				for blk := range c.loopCtx.Info.Blocks {
					for _, in := range blk.Instrs {
						if ld, ok := in.(*ssa.UnOp); ok {
							if al, ok := ld.X.(*ssa.Alloc); ok && al.Comment == "rangeint.iter" {
								if id, ok := c.frame.Cells[al]; ok {
									return scalar(c.st.Cells[id].V.T[0]), untypedInt
								}
							}
						}
					}
				}
			}
			if b := c.lookupLocal("rangeindex"); b != nil {
				return scalar(tb.Add(b.V.T[0], tb.Int(1))), untypedInt
			}
			// range over a map: the number of keys yielded so far
			if it, ok := c.innermostIter(); ok && it.Count != nil {
				return scalar(it.Count), untypedInt
			}
		}
	}
	return c.pkgObject(c.pkg, name)
}

func (c *specCtx) pkgObject(p *types.Package, name string) (Val, types.Type) {
	tb := c.e.tb
	o := p.Scope().Lookup(name)
	if o == nil {
		o = types.Universe.Lookup(name)
	}
	switch ob := o.(type) {
	case *types.Const:
		switch ob.Val().Kind() {
		case constant.Int:
			bi, _ := new(big.Int).SetString(ob.Val().ExactString(), 10)
			return scalar(tb.BigInt(bi)), ob.Type()
		case constant.Bool:
			return scalar(tb.Bool(constant.BoolVal(ob.Val()))), boolType
		case constant.String:
			return scalar(tb.Int(c.e.strID(constant.StringVal(ob.Val())))), ob.Type()
		}
	case *types.Var:
		sp := c.e.SSAPkgs[p.Path()]
		if sp != nil {
			if g, ok := sp.Members[name].(interface{ Type() types.Type }); ok {
				_ = g
			}
			if g := sp.Var(name); g != nil {
				T := ob.Type()
				ls := Leaves(T)
				out := Val{T: make([]*Term, len(ls))}
				for i, l := range ls {
					out.T[i] = c.H(globClass(g, "", l), l.Sort)
				}
				return out, T
			}
		}
	}
	c.fail("unknown identifier %s", name)
	return Val{}, nil
}

func isUntypedNil(t types.Type) bool {
	b, ok := t.(*types.Basic)
	return ok && b.Kind() == types.UntypedNil
}

func (c *specCtx) binary(n *SBin) (Val, types.Type) {
	tb := c.e.tb
	switch n.Op {
	case "&&":
		return scalar(tb.And(c.evalBool(n.L), c.evalBool(n.R))), boolType
	case "||":
		return scalar(tb.Or(c.evalBool(n.L), c.evalBool(n.R))), boolType
	case "==>":
		return scalar(tb.Implies(c.evalBool(n.L), c.evalBool(n.R))), boolType
	case "<==>":
		return scalar(tb.Eq(c.evalBool(n.L), c.evalBool(n.R))), boolType
	}
	l, lt := c.eval(n.L)
	r, rt := c.eval(n.R)
	switch n.Op {
	case "==", "!=":
		var eq *Term
		switch {
		case isUntypedNil(rt):
			eq = c.isNil(l, lt)
		case isUntypedNil(lt):
			eq = c.isNil(r, rt)
		default:
			l = c.e.flatten(c.st, lt, l)
			r = c.e.flatten(c.st, rt, r)
			if len(l.T) != len(r.T) {
				c.fail("comparison of values of different shape (%s vs %s)", lt, rt)
			}
			var cs []*Term
			ls := Leaves(lt)
			for i := range l.T {
				// slice capacity is not part of spec-level equality
				if len(ls) == len(l.T) && ls[i].Kind == LKSlCap {
					continue
				}
				if l.T[i].Sort != r.T[i].Sort {
					c.fail("comparison of values of different sorts")
				}
				cs = append(cs, tb.Eq(l.T[i], r.T[i]))
			}
			eq = tb.And(cs...)
		}
		if n.Op == "!=" {
			eq = tb.Not(eq)
		}
		return scalar(eq), boolType
	case "<":
		return scalar(tb.Lt(l.T[0], r.T[0])), boolType
	case "<=":
		return scalar(tb.Le(l.T[0], r.T[0])), boolType
	case ">":
		return scalar(tb.Gt(l.T[0], r.T[0])), boolType
	case ">=":
		return scalar(tb.Ge(l.T[0], r.T[0])), boolType
	case "+":
		return scalar(tb.Add(l.T[0], r.T[0])), untypedInt
	case "-":
		return scalar(tb.Sub(l.T[0], r.T[0])), untypedInt
	case "*":
		return scalar(tb.Mul(l.T[0], r.T[0])), untypedInt
	case "/":
		return scalar(tb.Div(l.T[0], r.T[0])), untypedInt
	case "%":
		return scalar(tb.Mod(l.T[0], r.T[0])), untypedInt
	}
	c.fail("unknown operator %s", n.Op)
	return Val{}, nil
}

func (c *specCtx) isNil(v Val, t types.Type) *Term {
	tb := c.e.tb
	switch t.Underlying().(type) {
	case *types.Slice:
		// a nil slice has no backing array and (by well-formedness) length 0
		return tb.And(tb.Eq(v.slArr(), tb.Int(0)), tb.Eq(v.slLen(), tb.Int(0)))
	case *types.Interface:
		return tb.Eq(v.ifTag(), tb.Int(0))
	}
	if px, ok := v.ann("").(*PtrX); ok {
		_ = px
		return tb.False()
	}
	return tb.Eq(v.T[0], tb.Int(0))
}

// selectField evaluates v.name where v has type t (auto-dereferencing, promoted fields).
func (c *specCtx) selectField(v Val, t types.Type, name string) (Val, types.Type) {
	obj, path, _ := types.LookupFieldOrMethod(t, true, c.pkg, name)
	if obj == nil {
		// unexported field of another package: search manually
		obj, path = lookupFieldAnyPkg(t, name)
	}
	fv, ok := obj.(*types.Var)
	if !ok || fv == nil {
		c.fail("no field %s in %s", name, t)
	}
	cur, curT := v, t
	for _, idx := range path {
		if p, isPtr := curT.Underlying().(*types.Pointer); isPtr {
			// field of heap object: load just that field
			ST := p.Elem()
			f := ST.Underlying().(*types.Struct).Field(idx)
			px := c.e.ptrOf(cur, ST)
			np := *px
			np.Path = px.Path + "." + f.Name()
			cur = c.loadPx(&np, f.Type())
			curT = f.Type()
			continue
		}
		st, isSt := curT.Underlying().(*types.Struct)
		if !isSt {
			c.fail("field selection on non-struct %s", curT)
		}
		cur = cur.sub(curT, idx)
		curT = st.Field(idx).Type()
	}
	return cur, curT
}

func lookupFieldAnyPkg(t types.Type, name string) (types.Object, []int) {
	if p, ok := t.Underlying().(*types.Pointer); ok {
		t = p.Elem()
	}
	st, ok := t.Underlying().(*types.Struct)
	if !ok {
		return nil, nil
	}
	for i := 0; i < st.NumFields(); i++ {
		if st.Field(i).Name() == name {
			return st.Field(i), []int{i}
		}
	}
	for i := 0; i < st.NumFields(); i++ {
		if st.Field(i).Embedded() {
			if o, p := lookupFieldAnyPkg(st.Field(i).Type(), name); o != nil {
				return o, append([]int{i}, p...)
			}
		}
	}
	return nil, nil
}

// loadPx is load without well-formedness side effects, reading from the context's heap.
func (c *specCtx) loadPx(px *PtrX, T types.Type) Val {
	tb := c.e.tb
	switch px.Kind {
	case PLocal:
		return c.e.loadPx(c.st, px, T)
	case PField:
		if isBigInt(T) && px.Path == "" {
			return Val{T: []*Term{tb.Select(c.H("BigVal", SArrI), px.Ref)}}
		}
		ls := Leaves(T)
		out := Val{T: make([]*Term, len(ls))}
		for i, l := range ls {
			out.T[i] = tb.Select(c.H(c.e.objClass(px.Root, px.Path, l), ArrOf(l.Sort)), px.Ref)
		}
		return out
	case PElem:
		ls := Leaves(T)
		out := Val{T: make([]*Term, len(ls))}
		for i, l := range ls {
			out.T[i] = tb.Select(tb.Select(c.H(c.e.elemClass(px.Root, px.Path, l), ArrOf(ArrOf(l.Sort))), px.Ref), px.Idx)
		}
		return out
	case PGlobal:
		ls := Leaves(T)
		out := Val{T: make([]*Term, len(ls))}
		for i, l := range ls {
			out.T[i] = c.H(globClass(px.Glob, px.Path, l), l.Sort)
		}
		return out
	}
	panic("spec loadPx")
}

func (c *specCtx) indexVal(v Val, t types.Type, iv Val) (Val, types.Type) {
	tb := c.e.tb
	switch u := t.Underlying().(type) {
	case *types.Slice:
		if sx, ok := v.ann("").(*SliceX); ok {
			if ci, isC := iv.T[0].ConstInt(); isC {
				cc := c.st.Cells[sx.Cell]
				if cc.Spill == nil && cc.V.Elems != nil && int(ci)+sx.Lo < len(cc.V.Elems) {
					return c.e.flatten(c.st, u.Elem(), cc.V.Elems[sx.Lo+int(ci)]), u.Elem()
				}
				if cc.Spill == nil && cc.V.Elems != nil && ci >= 0 {
					// beyond the end of the local array: an unspecified value (such reads are guarded by a length test in the spec)
					return c.e.freshVal(c.st, u.Elem(), "spec_oob"), u.Elem()
				}
			}
			// symbolic index: move the local array to the heap and read it there
			v = c.e.materialise(c.st, v, t)
		}
		px := &PtrX{Kind: PElem, Ref: v.slArr(), Idx: tb.Idx(v.slOff(), iv.T[0]), Root: u.Elem(), Elem: -1}
		return c.loadPx(px, u.Elem()), u.Elem()
	case *types.Map:
		k := c.e.mapKey(c.st, u.Key(), iv)
		ls := Leaves(u.Elem())
		out := Val{T: make([]*Term, len(ls))}
		// Go semantics: the zero value for absent keys
		in := tb.And(tb.Neq(v.T[0], tb.Int(0)), tb.Select(tb.Select(c.H(c.e.mapDomClass(u), SArr2B), v.T[0]), k))
		z := c.e.flatten(c.st, u.Elem(), c.e.zeroVal(u.Elem()))
		for i, l := range ls {
			out.T[i] = tb.Ite(in, tb.Select(tb.Select(c.H(c.e.mapValClass(u, l), ArrOf(ArrOf(l.Sort))), v.T[0]), k), z.T[i])
		}
		return out, u.Elem()
	case *types.Pointer:
		if at, ok := u.Elem().Underlying().(*types.Array); ok {
			_ = at
		}
	case *types.Array:
		if v.Elems != nil {
			if ci, isC := iv.T[0].ConstInt(); isC && int(ci) < len(v.Elems) {
				return v.Elems[ci], u.Elem()
			}
		}
		ls := Leaves(u.Elem())
		if len(ls) == 1 {
			tok := c.e.flatten(c.st, t, v).T[0]
			return scalar(tb.App("arrget_"+typeKey(t), SInt, tok, iv.T[0])), u.Elem()
		}
	}
	c.fail("index on unsupported type %s", t)
	return Val{}, nil
}

func (c *specCtx) call(n *SCall) (Val, types.Type) {
	tb := c.e.tb
	// method-style ghost access is not supported; function must be an identifier or pkg.ident
	name := ""
	switch f := n.Fn.(type) {
	case *SIdent:
		name = f.Name
	case *SSel:
		if id, ok := f.X.(*SIdent); ok {
			name = id.Name + "." + f.Name
		}
	}
	if name == "" {
		c.fail("unsupported call in spec")
	}
	arg := func(i int) (Val, types.Type) {
		if i >= len(n.Args) {
			c.fail("%s: missing argument %d", name, i)
		}
		return c.eval(n.Args[i])
	}
	switch name {
	case "len":
		v, t := arg(0)
		switch u := t.Underlying().(type) {
		case *types.Slice:
			return scalar(v.slLen()), untypedInt
		case *types.Map:
			if !v.T[0].Bound && len(c.heap) == len(c.st.Heap) {
				// tie the length to the domain (non-negative, witness for positive length) in the current state
				sameHeap := true
				for k, t := range c.heap {
					if c.st.Heap[k] != t {
						sameHeap = false
						break
					}
				}
				if sameHeap {
					return scalar(c.e.mapLen(c.st, u, v.T[0])), untypedInt
				}
			}
			return scalar(tb.Select(c.H("MLen:"+typeKey(u), SArrI), v.T[0])), untypedInt
		case *types.Array:
			return scalar(tb.Int(u.Len())), untypedInt
		case *types.Basic:
			return scalar(tb.App("strlen", SInt, v.T[0])), untypedInt
		}
		c.fail("len of %s", t)
	case "cap":
		v, _ := arg(0)
		return scalar(v.slCap()), untypedInt
	case "arr":
		v, t := arg(0)
		if _, isLocal := v.ann("").(*SliceX); isLocal && t != nil {
			// a slice over a local array has no heap identity yet: give it one (the array moves to the heap)
			v = c.e.materialise(c.st, v, t)
		}
		return scalar(v.slArr()), untypedInt
	case "off":
		v, t := arg(0)
		if _, isLocal := v.ann("").(*SliceX); isLocal && t != nil {
			v = c.e.materialise(c.st, v, t)
		}
		return scalar(v.slOff()), untypedInt
	case "val":
		v, _ := arg(0)
		return scalar(tb.Select(c.H("BigVal", SArrI), v.T[0])), untypedInt
	case "tag", "typeof":
		v, _ := arg(0)
		return scalar(v.ifTag()), untypedInt
	case "payload":
		v, _ := arg(0)
		if ix, isC := v.ann("").(*IfaceX); isC && ix.Box != nil {
			if _, isPtr := ix.Dyn.Underlying().(*types.Pointer); isPtr {
				if px, ok := ix.Box.ann("").(*PtrX); ok && px.Kind == PLocal && px.Path == "" && px.Elem < 0 {
					// the interface holds a pointer to an object still kept in a local cell: that pointer (not the box)
					if cc := c.st.Cells[px.Cell]; cc.Spill != nil {
						return scalar(cc.Spill), untypedInt
					}
					return *ix.Box, untypedInt
				}
			}
		}
		return scalar(v.ifVal()), untypedInt
	case "istype":
		v, _ := arg(0)
		s, ok := n.Args[1].(*SStr)
		if !ok {
			c.fail("istype needs a type string literal")
		}
		return scalar(tb.Eq(v.ifTag(), tb.Int(c.e.typeTag(c.resolveType(s.V))))), boolType
	case "as":
		// as(x, "T"): the payload of interface value x viewed as a value of dynamic type T (meaningful under istype(x, "T"))
		v, _ := arg(0)
		s, ok := n.Args[1].(*SStr)
		if !ok {
			c.fail("as needs a type string literal")
		}
		T := c.resolveType(s.V)
		if ix, isC := v.ann("").(*IfaceX); isC && ix.Box != nil && types.Identical(ix.Dyn, T) {
			return *ix.Box, T
		}
		ls := Leaves(T)
		if len(ls) != 1 || ls[0].Sort != SInt {
			// boxed payload of a composite dynamic type: its leaves live in the Box heap classes at the payload reference
			out := Val{T: make([]*Term, len(ls))}
			for i, l := range ls {
				out.T[i] = tb.Select(c.H("Box:"+typeKey(T)+l.Path, ArrOf(l.Sort)), v.ifVal())
			}
			return out, T
		}
		if false {
			c.fail("as: only scalar/pointer dynamic types are supported")
		}
		return scalar(v.ifVal()), T
	case "typetag":
		s, ok := n.Args[0].(*SStr)
		if !ok {
			c.fail("typetag needs a string literal")
		}
		return scalar(tb.Int(c.e.typeTag(c.resolveType(s.V)))), untypedInt
	case "fresh":
		v, t := arg(0)
		if px, ok := v.ann("").(*PtrX); ok && px.Kind == PLocal {
			// a pointer to an object that still lives in a local cell: give it its heap identity first
			v = c.e.plainPtr(c.st, v)
		}
		r := v.T[0]
		_ = t
		return scalar(tb.And(tb.Ge(r, c.oldAlloc), tb.Lt(r, c.st.Alloc))), boolType
	case "allocated":
		v, _ := arg(0)
		return scalar(tb.And(tb.Gt(v.T[0], tb.Int(0)), tb.Lt(v.T[0], c.st.Alloc))), boolType
	case "wasAllocated":
		v, _ := arg(0)
		return scalar(tb.And(tb.Gt(v.T[0], tb.Int(0)), tb.Lt(v.T[0], c.oldAlloc))), boolType
	case "has":
		m, t := arg(0)
		k, _ := arg(1)
		mt, ok := t.Underlying().(*types.Map)
		if !ok {
			c.fail("has on non-map")
		}
		kk := c.e.mapKey(c.st, mt.Key(), k)
		return scalar(tb.And(tb.Neq(m.T[0], tb.Int(0)), tb.Select(tb.Select(c.H(c.e.mapDomClass(mt), SArr2B), m.T[0]), kk))), boolType
	case "key":
		// composite key/value literal from leaves
		var ts []*Term
		for i := range n.Args {
			v, _ := arg(i)
			ts = append(ts, v.T...)
		}
		return Val{T: ts}, nil
	case "visited":
		// visited(k): key already yielded by the innermost map range loop
		if c.frame == nil {
			c.fail("visited outside loop")
		}
		k, _ := arg(0)
		it, ok := c.innermostIter()
		if !ok {
			c.fail("visited: no map iterator in scope")
		}
		kk := c.e.mapKey(c.st, it.KeyT, k)
		return scalar(tb.Select(it.Visited, kk)), boolType
	case "iterdom":
		k, _ := arg(0)
		it, ok := c.innermostIter()
		if !ok {
			c.fail("iterdom: no map iterator in scope")
		}
		kk := c.e.mapKey(c.st, it.KeyT, k)
		return scalar(tb.Select(it.Dom, kk)), boolType
	case "isbatch":
		// isbatch(w): the store writer w was created by NewBatch (its writes take effect together, at Apply)
		v, _ := arg(0)
		return scalar(tb.Select(c.ghostArr("kvbatch", SArrB), tb.App("kvkey", SInt, v.ifTag(), v.ifVal()))), boolType
	case "kvapplied":
		v, _ := arg(0)
		return scalar(tb.Select(c.ghostArr("kvapplied", SArrI), tb.App("kvkey", SInt, v.ifTag(), v.ifVal()))), untypedInt
	case "kvput", "kvdel":
		// kvput(key) / kvdel(key): a Put / Delete with this key string was issued on a store writer (ghost set)
		v, _ := arg(0)
		return scalar(tb.Select(c.ghostArr(name, SArrB), v.T[0])), boolType
	case "bytelen":
		// bytelen(x): length of the big-endian byte representation of the non-negative integer x ((*big.Int).Bytes)
		v, _ := arg(0)
		return scalar(tb.App("bigbytelen", SInt, v.T[0])), untypedInt
	case "streaming":
		// streaming(): whether reader contents are modelled as a byte stream in this run (content clauses are conditional on it)
		if c.e.Opts.StreamModel {
			return scalar(tb.True()), boolType
		}
		return scalar(tb.False()), boolType
	case "rpos":
		// rpos(r): number of bytes consumed from reader r so far (ghost)
		v, _ := arg(0)
		if len(v.T) != 2 {
			c.fail("rpos needs an io.Reader value")
		}
		return scalar(tb.Select(c.ghostArr("rpos", SArrI), readerKey(tb, v))), untypedInt
	case "wcount":
		// wcount(w): number of tokens written to w so far (token model)
		v, _ := arg(0)
		return scalar(tb.Select(c.ghostArr("wcount", SArrI), writerKey(tb, v))), untypedInt
	case "rcount":
		// rcount(r): number of tokens consumed from r so far (token model)
		v, _ := arg(0)
		return scalar(tb.Select(c.ghostArr("rcount", SArrI), readerKey(tb, v))), untypedInt
	case "desync":
		// desync(r): some read on r did not use the kind/length that was written (token model); what r yields afterwards is arbitrary
		v, _ := arg(0)
		return scalar(tb.Select(c.ghostArr("desync", SArrB), readerKey(tb, v))), boolType
	case "wtokKind", "wtokVal", "wtokLen":
		// wtokKind/Val/Len(w, i): the i-th token written to w
		v, _ := arg(0)
		i, _ := arg(1)
		part := map[string]string{"wtokKind": "tkind", "wtokVal": "tval", "wtokLen": "tlen"}[name]
		return scalar(tb.Select(tb.Select(c.ghostArr(part, SArr2I), writerKey(tb, v)), i.T[0])), untypedInt
	case "tokkind":
		s, ok := n.Args[0].(*SStr)
		if !ok {
			c.fail("tokkind needs a string literal")
		}
		return scalar(c.e.tokKind(s.V)), untypedInt
	case "isEncoder":
		// isEncoder(x): the dynamic type of interface value x implements perunio.Encoder
		v, _ := arg(0)
		if len(v.T) != 2 {
			c.fail("isEncoder needs an interface value")
		}
		return scalar(tb.App("implements_wire_perunio.Encoder", SBool, v.T[0])), boolType
	case "marshalOf", "encOf":
		// marshalOf(x) / encOf(x): the token value that stands for x.MarshalBinary() / x.Encode of a value of unknown dynamic type
		v, _ := arg(0)
		if len(v.T) != 2 {
			c.fail(name + " needs an interface value")
		}
		return scalar(tb.App(map[string]string{"marshalOf": "marshalval", "encOf": "encval"}[name], SInt, v.T[0], v.T[1])), untypedInt
	case "unmarshalledFrom", "decodedFrom":
		// unmarshalledFrom(y) / decodedFrom(y): the token value y's UnmarshalBinary / Decode was last given
		v, _ := arg(0)
		if len(v.T) != 2 {
			c.fail(name + " needs an interface value")
		}
		return scalar(tb.Select(c.ghostArr(name, SArrI), v.T[1])), untypedInt
	case "rejected":
		// rejected(r): a third-party unmarshaler or decoder refused the bytes it was given while decoding from r (token model)
		v, _ := arg(0)
		return scalar(tb.Select(c.ghostArr("rejected", SArrB), readerKey(tb, v))), boolType
	case "sumOf":
		// sumOf(x): the value of the summary token that stands for the encoding of x (a value whose type has a codec declaration)
		v, T := arg(0)
		if _, isPtr := T.Underlying().(*types.Pointer); isPtr {
			v = c.e.plainPtr(c.st, v)
		}
		fv := c.e.flatten(c.st, T, v)
		return scalar(tb.App("sumval_"+typeKey(T), SInt, intTerms(tb, fv.T)...)), untypedInt
	case "rec":
		// rec("W", k): the value recorded for loop iteration k by a loop's record clause
		s, ok := n.Args[0].(*SStr)
		if !ok {
			c.fail("rec needs a string literal")
		}
		i, _ := arg(1)
		return scalar(tb.Select(c.ghostArr("rec:"+s.V, SArrI), i.T[0])), untypedInt
	case "unmarshalled":
		// unmarshalled(y): y.UnmarshalBinary has been called (ghost flag kept by the library model)
		v, _ := arg(0)
		if len(v.T) != 2 {
			c.fail("unmarshalled needs an interface value")
		}
		return scalar(tb.Select(c.ghostArr("unmarshalled", SArrB), v.T[1])), boolType
	case "marshalLen":
		// marshalLen(x): the length of the byte slice x.MarshalBinary() returns (uninterpreted function of the value, as in the library model)
		v, _ := arg(0)
		if len(v.T) != 2 {
			c.fail("marshalLen needs an interface value")
		}
		return scalar(tb.App("marshallen", SInt, v.T[0], v.T[1])), untypedInt
	case "bytesId":
		// bytesId(b): the identity of the byte slice's content (equals marshalOf(x) iff b holds what x's marshaler produced;
		// it is what unmarshalledFrom(y) records)
		v, T := arg(0)
		if sl, ok := T.Underlying().(*types.Slice); ok {
			v = c.e.materialiseIfSlice(c.st, v, sl)
		}
		if len(v.T) != 4 {
			c.fail("bytesId needs a byte slice")
		}
		row := tb.Select(c.H("E:uint8", SArr2I), v.T[0])
		return scalar(tb.App("bytestok", SInt, row, v.T[1], v.T[2])), untypedInt
	case "auxBytes":
		// auxBytes(b): the 256-byte array value whose elements are the bytes of b
		v, T := arg(0)
		if sl, ok := T.Underlying().(*types.Slice); ok {
			v = c.e.materialiseIfSlice(c.st, v, sl)
		}
		if len(v.T) != 4 {
			c.fail("auxBytes needs a byte slice")
		}
		at := types.NewArray(types.Typ[types.Uint8], 256)
		row := tb.Select(c.H("E:uint8", SArr2I), v.T[0])
		return scalar(tb.App("packr_"+typeKey(at), SInt, row, v.T[1], tb.Int(256))), at
	case "idBytes":
		// idBytes(b): the 32-byte array value whose elements are the bytes of b (what copying b into a [32]byte yields)
		v, T := arg(0)
		if sl, ok := T.Underlying().(*types.Slice); ok {
			v = c.e.materialiseIfSlice(c.st, v, sl)
		}
		if len(v.T) != 4 {
			c.fail("idBytes needs a byte slice")
		}
		at := types.NewArray(types.Typ[types.Uint8], 32)
		row := tb.Select(c.H("E:uint8", SArr2I), v.T[0])
		return scalar(tb.App("packr_"+typeKey(at), SInt, row, v.T[1], tb.Int(32))), at
	case "bigOf":
		// bigOf(b): the non-negative integer whose big-endian bytes are the byte slice b (what SetBytes(b) yields)
		v, T := arg(0)
		if sl, ok := T.Underlying().(*types.Slice); ok {
			v = c.e.materialiseIfSlice(c.st, v, sl)
		}
		if len(v.T) != 4 {
			c.fail("bigOf needs a byte slice")
		}
		row := tb.Select(c.H("E:uint8", SArr2I), v.T[0])
		return scalar(tb.App("bytes2big", SInt, row, v.T[1], v.T[2])), untypedInt
	case "tokByte":
		// tokByte(v, j): byte j of the byte-slice token with value v (token model)
		v, _ := arg(0)
		j, _ := arg(1)
		return scalar(tb.Select(tb.App("tokbytes", SArrI, v.T[0]), j.T[0])), untypedInt
	case "wtokByte":
		v, _ := arg(0)
		return v, untypedInt
	case "getbit":
		// getbit(x, s): bit s of the unsigned integer x (the function the engine uses for (x >> s) % 2 and x | 1<<s)
		x, _ := arg(0)
		sft, _ := arg(1)
		return scalar(c.e.getbit(c.st, x.T[0], sft.T[0])), untypedInt
	case "unixnano":
		// unixnano(t): the value of t.UnixNano() (uninterpreted function of the time value)
		v, T := arg(0)
		return scalar(c.e.unixNano(c.st, v, T)), untypedInt
	case "bufferOf":
		// bufferOf(s): the *bytes.Buffer whose Bytes() call returned the slice s (0 if s did not come from one)
		v, _ := arg(0)
		if len(v.T) < 3 {
			c.fail("bufferOf needs a slice")
		}
		return scalar(tb.Select(c.ghostArr("bufsrc", SArrI), v.slArr())), untypedInt
	case "wpos":
		// wpos(w): number of bytes written to writer w so far (ghost)
		v, _ := arg(0)
		if len(v.T) != 2 {
			c.fail("wpos needs an io.Writer value")
		}
		return scalar(tb.Select(c.ghostArr("wpos", SArrI), writerKey(tb, v))), untypedInt
	case "wroteAt":
		// wroteAt(w, i): the i-th byte of the output of writer w (ghost)
		v, _ := arg(0)
		i, _ := arg(1)
		if len(v.T) != 2 {
			c.fail("wroteAt needs an io.Writer value")
		}
		return scalar(tb.Select(tb.Select(c.ghostArr("wbytes", SArr2I), writerKey(tb, v)), i.T[0])), untypedInt
	case "rfail":
		// rfail(r): some read on r returned an error so far (ghost)
		v, _ := arg(0)
		if len(v.T) != 2 {
			c.fail("rfail needs an io.Reader value")
		}
		return scalar(tb.Select(c.ghostArr("rfail", SArrB), readerKey(tb, v))), boolType
	case "streamAt":
		// streamAt(r, i): the i-th byte of the stream behind reader r (uninterpreted content)
		v, _ := arg(0)
		i, _ := arg(1)
		if len(v.T) != 2 {
			c.fail("streamAt needs an io.Reader value")
		}
		return scalar(tb.App("stream", SInt, readerKey(tb, v), i.T[0])), untypedInt
	case "log10width":
		// log10width(n): the engine's term for the Go expression int(math.Ceil(math.Log10(float64(n)))) (floating point is not
		// interpreted: two occurrences of this very expression are equal, anything else is not known to be)
		v, _ := arg(0)
		t := tb.App("int2float", SInt, v.T[0])
		t = tb.App("lib_math_Log10_0", SInt, t)
		t = tb.App("lib_math_Ceil", SInt, t)
		return scalar(tb.App("float2int_"+typeKey(types.Typ[types.Int]), SInt, t)), untypedInt
	case "flagset":
		// flagset(&x.f): the ghost state of an atomic flag (polycry atomic.Bool)
		v, _ := arg(0)
		return scalar(tb.Select(c.ghostArr("aflag", SArrB), c.e.mutexRef(v))), types.Typ[types.Bool]
	case "held":
		// held(&x.mtx): the ghost lock state of a mutex
		v, _ := arg(0)
		cur := c.ghostArr("held", SArrB)
		return scalar(tb.Select(cur, c.e.mutexRef(v))), types.Typ[types.Bool]
	case "apply":
		// apply(f, args...): the result of calling the unknown (pure, deterministic) function value f - the same
		// uninterpreted application the engine uses for calls through function values
		fvv, ft := arg(0)
		sig, ok := ft.Underlying().(*types.Signature)
		if !ok || sig.Results().Len() != 1 {
			c.fail("apply needs a function value with exactly one result")
		}
		flat := []*Term{fvv.T[0]}
		for i := 1; i < len(n.Args); i++ {
			av, _ := arg(i)
			at := sig.Params().At(min(i-1, sig.Params().Len()-1)).Type()
			av = c.e.flatten(c.st, at, av)
			flat = append(flat, intTerms(tb, av.T)...)
		}
		RT := sig.Results().At(0).Type()
		ls := Leaves(RT)
		out := Val{T: make([]*Term, len(ls))}
		for i, l := range ls {
			out.T[i] = tb.App(fmt.Sprintf("fnval_%d_%d_%s%s", len(flat), 0, typeKey(RT), l.Path), l.Sort, flat...)
		}
		return out, RT
	case "marked":
		// marked("x"): the ghost mark x has been set (by the trusted contract of a function that must be shown to have been called)
		v, _ := arg(0)
		return scalar(tb.Select(c.ghostArr("marks", SArrB), v.T[0])), boolType
	case "bounded":
		// bounded(ctx): the context carries a deadline (ghost flag set by context.WithTimeout/WithDeadline, inherited by WithCancel/WithValue)
		v, _ := arg(0)
		if len(v.T) != 2 {
			c.fail("bounded needs a context value")
		}
		return scalar(tb.Select(c.ghostArr("ctxbounded", SArrB), tb.App("ctxkey", SInt, v.T[0], v.T[1]))), boolType
	case "closed":
		// closed(ch): the channel value has been closed (ghost flag)
		v, _ := arg(0)
		return scalar(tb.Select(c.ghostArr("closed", SArrB), v.T[0])), boolType
	case "received", "receivedNonNil":
		// received(): number of channel receives so far; receivedNonNil(): how many received interface values (errors) were non-nil
		// (ghost counters; old(...) gives their value at function entry)
		nm := map[string]string{"received": "recvcount", "receivedNonNil": "recvnonnil"}[name]
		var m map[string]*Term
		switch {
		case c.inOld:
			m = c.oldGhost
		case c.ghost != nil:
			m = c.ghost
		default:
			m = c.st.Ghost
		}
		if t, ok := m[nm]; ok {
			return scalar(t), untypedInt
		}
		return scalar(tb.Const("G0!"+nm, SInt)), untypedInt
	case "sent":
		// sent(ch): number of sends on the channel value so far (ghost counter)
		v, _ := arg(0)
		cur := c.ghostArr("sends", SArrI)
		return scalar(tb.Select(cur, v.T[0])), untypedInt
	case "ghost":
		s, ok := n.Args[0].(*SStr)
		if !ok {
			c.fail("ghost needs a string literal")
		}
		if t, ok := c.st.Ghost[s.V]; ok {
			return scalar(t), untypedInt
		}
		return scalar(tb.Const("G0!"+s.V, SInt)), untypedInt
	}
	// type conversion?
	if T := c.tryType(name); T != nil && len(n.Args) == 1 {
		v, _ := arg(0)
		return v, T
	}
	// predicate (macro)
	if pd, ok := c.e.Specs.Preds[name]; ok {
		if len(pd.Params) != len(n.Args) {
			c.fail("pred %s: wrong number of arguments", name)
		}
		if c.depth > 30 {
			c.fail("pred expansion too deep (recursive pred %s?)", name)
		}
		env := map[string]specBind{}
		ppkg := c.e.Pkgs[pd.Pkg].Types
		for i, p := range pd.Params {
			v, t := arg(i)
			if p.Type != "" {
				dt := c.e.resolveType(ppkg, p.Type)
				if isUntypedNil(t) || t == untypedInt || t == nil {
					if len(v.T) != len(Leaves(dt)) {
						// nil of composite type
						if isUntypedNil(t) {
							v = c.e.zeroVal(dt)
						}
					}
				}
				t = dt
			}
			env[p.Name] = specBind{v, t}
		}
		nc := c.with(env)
		nc.pkg = ppkg
		nc.depth = c.depth + 1
		return nc.eval(pd.Body)
	}
	// ghost function (uninterpreted)
	if gf, ok := c.e.Specs.Ghosts[name]; ok {
		var ts []*Term
		for i := range n.Args {
			v, t := arg(i)
			if t != nil && !isUntypedNil(t) && t != untypedInt && len(Leaves(t)) == len(c.e.flatten(c.st, t, v).T) {
				ts = append(ts, c.e.ghostArgs(c.st, t, v)...)
				continue
			}
			ts = append(ts, intTerms(tb, v.T)...)
		}
		gpkg := c.e.Pkgs[gf.Pkg].Types
		rs := SInt
		var rt types.Type = untypedInt
		if gf.Ret == "bool" {
			rs = SBool
			rt = boolType
		} else if gf.Ret != "" && gf.Ret != "int" {
			rt = c.e.resolveType(gpkg, gf.Ret)
			ls := Leaves(rt)
			if len(ls) > 1 {
				out := Val{T: make([]*Term, len(ls))}
				for i, l := range ls {
					out.T[i] = tb.App("ghost_"+name+l.Path, l.Sort, ts...)
				}
				return out, rt
			}
			if len(ls) == 1 {
				rs = ls[0].Sort
			}
		}
		return scalar(tb.App("ghost_"+name, rs, ts...)), rt
	}
	c.fail("unknown spec function %s", name)
	return Val{}, nil
}

func (c *specCtx) innermostIter() (iterState, bool) {
	best := -1
	for id := range c.st.Iters {
		if id > best {
			best = id
		}
	}
	if best < 0 {
		return iterState{}, false
	}
	return c.st.Iters[best], true
}

func (c *specCtx) tryType(name string) (T types.Type) {
	defer func() {
		if r := recover(); r != nil {
			T = nil
		}
	}()
	if strings.Contains(name, ".") {
		return c.resolveType(name)
	}
	if o := types.Universe.Lookup(name); o != nil {
		if tn, ok := o.(*types.TypeName); ok {
			return tn.Type()
		}
		return nil
	}
	if o := c.pkg.Scope().Lookup(name); o != nil {
		if tn, ok := o.(*types.TypeName); ok {
			return tn.Type()
		}
	}
	return nil
}

// ---- location patterns (modifies clauses) ----

// Loc is a set of heap locations in one class.
type Loc struct {
	Class string
	Sort  Sort  // sort of the class array
	Ref   *Term // object reference / backing array
	Idx   *Term // for 2-D classes: element index; nil = whole row
	All   bool  // the location in every object of the class ("every(p.f)")
}

// evalLocs evaluates a modifies pattern to locations.
func (c *specCtx) evalLocs(x SExpr) []Loc {
	tb := c.e.tb
	switch n := x.(type) {
	case *SStar:
		// p.* : all fields of object p ; s[*] : all elements of slice s
		v, t := c.eval(n.X)
		switch u := t.Underlying().(type) {
		case *types.Pointer:
			var out []Loc
			if isBigInt(u.Elem()) {
				return []Loc{{Class: "BigVal", Sort: SArrI, Ref: v.T[0]}}
			}
			px := c.e.ptrOf(c.e.plainPtr(c.st, v), u.Elem())
			switch px.Kind {
			case PField:
				for _, l := range Leaves(u.Elem()) {
					out = append(out, Loc{Class: c.e.objClass(px.Root, px.Path, l), Sort: ArrOf(l.Sort), Ref: px.Ref})
				}
			case PElem:
				for _, l := range Leaves(u.Elem()) {
					out = append(out, Loc{Class: c.e.elemClass(px.Root, px.Path, l), Sort: ArrOf(ArrOf(l.Sort)), Ref: px.Ref, Idx: px.Idx})
				}
			default:
				c.fail("modifies pattern through a pointer to a local or global")
			}
			return out
		case *types.Slice:
			var out []Loc
			for _, l := range Leaves(u.Elem()) {
				out = append(out, Loc{Class: c.e.elemClass(u.Elem(), "", l), Sort: ArrOf(ArrOf(l.Sort)), Ref: v.slArr()})
			}
			return out
		case *types.Map:
			var out []Loc
			out = append(out, Loc{Class: c.e.mapDomClass(u), Sort: SArr2B, Ref: v.T[0]})
			out = append(out, Loc{Class: "MLen:" + typeKey(u), Sort: SArrI, Ref: v.T[0]})
			for _, l := range Leaves(u.Elem()) {
				out = append(out, Loc{Class: c.e.mapValClass(u, l), Sort: ArrOf(ArrOf(l.Sort)), Ref: v.T[0]})
			}
			return out
		}
		c.fail("unsupported .* / [*] pattern on %s", t)
	case *SSel:
		v, t := c.eval(n.X)
		p, ok := t.Underlying().(*types.Pointer)
		if !ok {
			// field of a struct value reached through a location: recurse to find the enclosing location
			base := c.evalLocsPath(n)
			if base != nil {
				return base
			}
			c.fail("modifies pattern %v does not denote a heap location", n)
		}
		obj, path, _ := types.LookupFieldOrMethod(t, true, c.pkg, n.Name)
		if obj == nil {
			obj, path = lookupFieldAnyPkg(t, n.Name)
		}
		if obj == nil || len(path) != 1 {
			c.fail("modifies: cannot resolve direct field %s of %s", n.Name, t)
		}
		ST := p.Elem()
		f := ST.Underlying().(*types.Struct).Field(path[0])
		var out []Loc
		for _, l := range Leaves(f.Type()) {
			out = append(out, Loc{Class: c.e.objClass(ST, "."+f.Name(), l), Sort: ArrOf(l.Sort), Ref: v.T[0]})
		}
		return out
	case *SIndex:
		v, t := c.eval(n.X)
		iv, _ := c.eval(n.I)
		switch u := t.Underlying().(type) {
		case *types.Slice:
			var out []Loc
			for _, l := range Leaves(u.Elem()) {
				out = append(out, Loc{Class: c.e.elemClass(u.Elem(), "", l), Sort: ArrOf(ArrOf(l.Sort)), Ref: v.slArr(), Idx: tb.Idx(v.slOff(), iv.T[0])})
			}
			return out
		case *types.Map:
			k := c.e.mapKey(c.st, u.Key(), iv)
			var out []Loc
			out = append(out, Loc{Class: c.e.mapDomClass(u), Sort: SArr2B, Ref: v.T[0], Idx: k})
			out = append(out, Loc{Class: "MLen:" + typeKey(u), Sort: SArrI, Ref: v.T[0]})
			for _, l := range Leaves(u.Elem()) {
				out = append(out, Loc{Class: c.e.mapValClass(u, l), Sort: ArrOf(ArrOf(l.Sort)), Ref: v.T[0], Idx: k})
			}
			return out
		}
		c.fail("modifies: index pattern on %s", t)
	case *SCall:
		if id, ok := n.Fn.(*SIdent); ok && id.Name == "val" && len(n.Args) == 1 {
			v, _ := c.eval(n.Args[0])
			return []Loc{{Class: "BigVal", Sort: SArrI, Ref: v.T[0]}}
		}
		if id, ok := n.Fn.(*SIdent); ok && id.Name == "every" && len(n.Args) == 1 {
			// every(p.f): field f of every object of p's type (p only names the type)
			var out []Loc
			for _, l := range c.evalLocs(n.Args[0]) {
				l.All = true
				out = append(out, l)
			}
			return out
		}
		if id, ok := n.Fn.(*SIdent); ok && id.Name == "ghost" && len(n.Args) == 1 {
			s := n.Args[0].(*SStr)
			return []Loc{{Class: "ghost:" + s.V}}
		}
	}
	c.fail("unsupported modifies pattern")
	return nil
}

// evalLocsPath handles p.f.g where p is a pointer and f a struct-valued field.
func (c *specCtx) evalLocsPath(n *SSel) []Loc {
	// collect selector chain down to a pointer-typed base
	var names []string
	var cur SExpr = n
	for {
		s, ok := cur.(*SSel)
		if !ok {
			return nil
		}
		names = append([]string{s.Name}, names...)
		v, t := c.eval(s.X)
		if p, isPtr := t.Underlying().(*types.Pointer); isPtr {
			ST := p.Elem()
			path := ""
			T := ST
			for _, nm := range names {
				st, ok := T.Underlying().(*types.Struct)
				if !ok {
					return nil
				}
				found := false
				for i := 0; i < st.NumFields(); i++ {
					if st.Field(i).Name() == nm {
						path += "." + nm
						T = st.Field(i).Type()
						found = true
						break
					}
				}
				if !found {
					return nil
				}
			}
			var out []Loc
			for _, l := range Leaves(T) {
				out = append(out, Loc{Class: c.e.objClass(ST, path, l), Sort: ArrOf(l.Sort), Ref: v.T[0]})
			}
			return out
		}
		cur = s.X
	}
}
