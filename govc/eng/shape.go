package eng

import (
	"fmt"
	"go/types"
	"strings"
)

// Leaf is one scalar component of a flattened Go value.
type Leaf struct {
	Path string // ".f.g" / ".arr" / ".len" / ".tag" ...; "" for scalars
	Sort Sort
	Kind LeafKind
	Typ  types.Type // Go type of the scalar (for ranges); nil for synthetic leaves
}

type LeafKind int

const (
	LKInt    LeafKind = iota // integer-like scalar with range of Typ
	LKBool                   // bool
	LKRef                    // pointer/map/chan/func reference (0 = nil)
	LKString                 // interned string id
	LKOpaque                 // opaque value token (arrays, foreign structs, floats)
	LKSlArr                  // slice: backing array ref
	LKSlOff
	LKSlLen
	LKSlCap
	LKTag // interface: dynamic type tag (0 = nil interface)
	LKVal // interface: payload
)

// typeKey is a canonical short name for a type (aliases resolved), used in heap class names.
func typeKey(t types.Type) string {
	if k, ok := typeKeys[t]; ok {
		return k
	}
	k := sanitize(canonType(t))
	typeKeys[t] = k
	return k
}

var typeKeys = map[types.Type]string{}

func pkgShort(p *types.Package) string {
	if p == nil {
		return ""
	}
	s := strings.TrimPrefix(p.Path(), "perun.network/go-perun/")
	return strings.ReplaceAll(s, "/", "_")
}

func canonType(t types.Type) string {
	t = types.Unalias(t)
	switch u := t.(type) {
	case *types.Named:
		s := u.Obj().Name()
		if u.Obj().Pkg() != nil {
			s = pkgShort(u.Obj().Pkg()) + "." + s
		}
		if ta := u.TypeArgs(); ta != nil {
			s += "["
			for i := 0; i < ta.Len(); i++ {
				s += canonType(ta.At(i)) + ","
			}
			s += "]"
		}
		return s
	case *types.Pointer:
		return "*" + canonType(u.Elem())
	case *types.Slice:
		return "[]" + canonType(u.Elem())
	case *types.Array:
		return fmt.Sprintf("[%d]%s", u.Len(), canonType(u.Elem()))
	case *types.Map:
		return "map[" + canonType(u.Key()) + "]" + canonType(u.Elem())
	case *types.Chan:
		return "chan " + canonType(u.Elem())
	case *types.Basic:
		if u.Kind() < types.UntypedBool && u.Kind() != types.Invalid {
			return types.Typ[u.Kind()].Name() // byte -> uint8, rune -> int32
		}
		return u.Name()
	case *types.Struct:
		s := "struct{"
		for i := 0; i < u.NumFields(); i++ {
			s += u.Field(i).Name() + " " + canonType(u.Field(i).Type()) + ";"
		}
		return s + "}"
	case *types.Interface:
		if u.NumMethods() == 0 {
			return "any"
		}
		return types.TypeString(u, pkgShort)
	case *types.Tuple:
		s := "("
		for i := 0; i < u.Len(); i++ {
			s += canonType(u.At(i).Type()) + ","
		}
		return s + ")"
	}
	return types.TypeString(t, pkgShort)
}

func isBigInt(t types.Type) bool {
	n, ok := types.Unalias(t).(*types.Named)
	return ok && n.Obj().Pkg() != nil && n.Obj().Pkg().Path() == "math/big" && n.Obj().Name() == "Int"
}

func isRepoPkg(p *types.Package) bool {
	return p != nil && (strings.HasPrefix(p.Path(), "perun.network/go-perun") || strings.HasPrefix(p.Path(), "govctest"))
}

// opaqueStruct reports whether a struct-typed named type from outside the
// repository is treated as an opaque token (sync.Mutex, time.Time, big.Int ...).
func opaqueNamed(t types.Type) bool {
	n, ok := types.Unalias(t).(*types.Named)
	if !ok {
		return false
	}
	if _, isStruct := n.Underlying().(*types.Struct); !isStruct {
		return false
	}
	return !isRepoPkg(n.Obj().Pkg())
}

type shapeCache struct {
	m map[types.Type][]Leaf
}

var shapes = shapeCache{m: map[types.Type][]Leaf{}}

// Leaves flattens a Go type into scalar leaves.
func Leaves(t types.Type) []Leaf {
	t = types.Unalias(t)
	if l, ok := shapes.m[t]; ok {
		return l
	}
	l := leaves(t)
	shapes.m[t] = l
	return l
}

func leaves(t types.Type) []Leaf {
	if opaqueNamed(t) {
		return []Leaf{{Path: "", Sort: SInt, Kind: LKOpaque, Typ: t}}
	}
	switch u := t.Underlying().(type) {
	case *types.Basic:
		switch {
		case u.Info()&types.IsBoolean != 0:
			return []Leaf{{Sort: SBool, Kind: LKBool, Typ: t}}
		case u.Info()&types.IsInteger != 0:
			return []Leaf{{Sort: SInt, Kind: LKInt, Typ: t}}
		case u.Info()&types.IsString != 0:
			return []Leaf{{Sort: SInt, Kind: LKString, Typ: t}}
		case u.Kind() == types.UnsafePointer:
			return []Leaf{{Sort: SInt, Kind: LKRef, Typ: t}}
		case u.Kind() == types.UntypedNil:
			return []Leaf{{Sort: SInt, Kind: LKRef, Typ: t}}
		default: // floats, complex
			return []Leaf{{Sort: SInt, Kind: LKOpaque, Typ: t}}
		}
	case *types.Pointer, *types.Map, *types.Chan, *types.Signature:
		return []Leaf{{Sort: SInt, Kind: LKRef, Typ: t}}
	case *types.Slice:
		return []Leaf{
			{Path: ".arr", Sort: SInt, Kind: LKSlArr, Typ: t},
			{Path: ".off", Sort: SInt, Kind: LKSlOff, Typ: t},
			{Path: ".len", Sort: SInt, Kind: LKSlLen, Typ: t},
			{Path: ".cap", Sort: SInt, Kind: LKSlCap, Typ: t},
		}
	case *types.Interface:
		return []Leaf{
			{Path: ".tag", Sort: SInt, Kind: LKTag, Typ: t},
			{Path: ".val", Sort: SInt, Kind: LKVal, Typ: t},
		}
	case *types.Array:
		return []Leaf{{Sort: SInt, Kind: LKOpaque, Typ: t}}
	case *types.Struct:
		var out []Leaf
		for i := 0; i < u.NumFields(); i++ {
			f := u.Field(i)
			for _, l := range Leaves(f.Type()) {
				out = append(out, Leaf{Path: "." + f.Name() + l.Path, Sort: l.Sort, Kind: l.Kind, Typ: l.Typ})
			}
		}
		return out
	case *types.Tuple:
		var out []Leaf
		for i := 0; i < u.Len(); i++ {
			for _, l := range Leaves(u.At(i).Type()) {
				out = append(out, Leaf{Path: fmt.Sprintf(".%d%s", i, l.Path), Sort: l.Sort, Kind: l.Kind, Typ: l.Typ})
			}
		}
		return out
	}
	panic(fmt.Sprintf("leaves: unsupported type %s (%T)", t, t.Underlying()))
}

// intRange returns the inclusive range of an integer type.
func intRange(t types.Type) (lo, hi string, ok bool) {
	b, isB := t.Underlying().(*types.Basic)
	if !isB {
		return
	}
	switch b.Kind() {
	case types.Int8:
		return "-128", "127", true
	case types.Int16:
		return "-32768", "32767", true
	case types.Int32, types.UntypedRune:
		return "-2147483648", "2147483647", true
	case types.Int, types.Int64:
		return "-9223372036854775808", "9223372036854775807", true
	case types.Uint8:
		return "0", "255", true
	case types.Uint16:
		return "0", "65535", true
	case types.Uint32:
		return "0", "4294967295", true
	case types.Uint, types.Uint64, types.Uintptr:
		return "0", "18446744073709551615", true
	}
	return
}

func intBits(t types.Type) (bits int, signed bool, ok bool) {
	b, isB := t.Underlying().(*types.Basic)
	if !isB {
		return
	}
	switch b.Kind() {
	case types.Int8:
		return 8, true, true
	case types.Int16:
		return 16, true, true
	case types.Int32:
		return 32, true, true
	case types.Int, types.Int64:
		return 64, true, true
	case types.Uint8:
		return 8, false, true
	case types.Uint16:
		return 16, false, true
	case types.Uint32:
		return 32, false, true
	case types.Uint, types.Uint64, types.Uintptr:
		return 64, false, true
	}
	return
}
