package eng

import (
	"fmt"
	"go/types"
	"sort"
	"strings"

	"golang.org/x/tools/go/ssa"
)

// SideResult is the outcome of a mechanical (non-SMT) side check.
type SideResult struct {
	Name   string
	OK     bool
	Detail string
	Count  int // number of sites inspected
}

// allFuncs enumerates the functions (including closures) of the given packages.
func (e *Engine) allFuncs(pkgPrefixes []string) []*ssa.Function {
	var out []*ssa.Function
	seen := map[*ssa.Function]bool{}
	var visit func(f *ssa.Function)
	visit = func(f *ssa.Function) {
		if f == nil || seen[f] {
			return
		}
		seen[f] = true
		out = append(out, f)
		for _, an := range f.AnonFuncs {
			visit(an)
		}
	}
	var paths []string
	for p := range e.SSAPkgs {
		paths = append(paths, p)
	}
	sort.Strings(paths)
	for _, p := range paths {
		ok := false
		for _, pre := range pkgPrefixes {
			if strings.HasPrefix(p, pre) {
				ok = true
			}
		}
		if !ok {
			continue
		}
		pkg := e.SSAPkgs[p]
		var names []string
		for n := range pkg.Members {
			names = append(names, n)
		}
		sort.Strings(names)
		for _, n := range names {
			switch m := pkg.Members[n].(type) {
			case *ssa.Function:
				visit(m)
			case *ssa.Type:
				for _, T := range []types.Type{m.Type(), types.NewPointer(m.Type())} {
					ms := e.Prog.MethodSets.MethodSet(T)
					for j := 0; j < ms.Len(); j++ {
						fn := e.Prog.MethodValue(ms.At(j))
						if fn != nil && fn.Synthetic == "" {
							visit(fn)
						}
					}
				}
			}
		}
	}
	return out
}

func isTestFile(e *Engine, f *ssa.Function) bool {
	if !f.Pos().IsValid() {
		return false
	}
	// test support packages (channel/test, wallet/test, ...) are test code outside _test.go files
	if f.Pkg != nil {
		if pp := f.Pkg.Pkg.Path(); strings.HasSuffix(pp, "/test") || strings.Contains(pp, "/test/") {
			return true
		}
	}
	return strings.HasSuffix(e.Fset.Position(f.Pos()).Filename, "_test.go")
}

// WritesClosure checks that every store to one of the named fields ("pkgpath.Type.field")
// happens in one of the allowed functions (full keys). Composite-literal
// initialisation of a freshly allocated object counts as a store as well.
func (e *Engine) WritesClosure(name string, fields []string, allowed []string) SideResult {
	allow := map[string]bool{}
	for _, a := range allowed {
		allow[a] = true
	}
	want := map[string]bool{}
	for _, f := range fields {
		want[f] = true
	}
	res := SideResult{Name: name, OK: true}
	var bad []string
	for _, fn := range e.allFuncs([]string{"perun.network/go-perun"}) {
		if isTestFile(e, fn) {
			continue
		}
		for _, b := range fn.Blocks {
			for _, in := range b.Instrs {
				st, ok := in.(*ssa.Store)
				if !ok {
					continue
				}
				fa, ok := rootFieldAddr(st.Addr)
				if !ok {
					continue
				}
				pt, ok := fa.X.Type().Underlying().(*types.Pointer)
				if !ok {
					continue
				}
				named, ok := types.Unalias(pt.Elem()).(*types.Named)
				if !ok || named.Obj().Pkg() == nil {
					continue
				}
				fld := pt.Elem().Underlying().(*types.Struct).Field(fa.Field)
				key := named.Obj().Pkg().Path() + "." + named.Obj().Name() + "." + fld.Name()
				if !want[key] {
					continue
				}
				res.Count++
				if !allow[FullKey(fn)] {
					bad = append(bad, fmt.Sprintf("%s writes %s at %s", FullKey(fn), key, posStr(e.Fset, st.Pos())))
				}
			}
		}
	}
	if len(bad) > 0 {
		res.OK = false
		res.Detail = strings.Join(bad, "; ")
	}
	return res
}

// rootFieldAddr finds the outermost struct field a store address points into.
func rootFieldAddr(v ssa.Value) (*ssa.FieldAddr, bool) {
	var last *ssa.FieldAddr
	for {
		switch x := v.(type) {
		case *ssa.FieldAddr:
			last = x
			v = x.X
		case *ssa.IndexAddr:
			// writing an element of an array field is a write of the field; writing through a slice is not
			if _, isPtr := x.X.Type().Underlying().(*types.Pointer); isPtr {
				v = x.X
				continue
			}
			return last, last != nil
		default:
			return last, last != nil
		}
	}
}

// GlobalsReadOnly checks that the named package-level variables are stored to only by the package initialiser.
func (e *Engine) GlobalsReadOnly(name string, pkgPath string, globals []string) SideResult {
	want := map[string]bool{}
	for _, g := range globals {
		want[g] = true
	}
	res := SideResult{Name: name, OK: true}
	var bad []string
	for _, fn := range e.allFuncs([]string{"perun.network/go-perun"}) {
		if isTestFile(e, fn) {
			continue
		}
		for _, b := range fn.Blocks {
			for _, in := range b.Instrs {
				var target ssa.Value
				switch x := in.(type) {
				case *ssa.Store:
					target = x.Addr
				case *ssa.MapUpdate:
					// m[k] = v where m was loaded from the global
					if ld, ok := x.Map.(*ssa.UnOp); ok {
						target = ld.X
					}
				}
				if target == nil {
					continue
				}
				for {
					if fa, ok := target.(*ssa.FieldAddr); ok {
						target = fa.X
						continue
					}
					if ia, ok := target.(*ssa.IndexAddr); ok {
						if ld, ok := ia.X.(*ssa.UnOp); ok {
							target = ld.X
							continue
						}
						target = ia.X
						continue
					}
					break
				}
				g, ok := target.(*ssa.Global)
				if !ok || g.Pkg.Pkg.Path() != pkgPath || !want[g.Name()] {
					continue
				}
				res.Count++
				if !(fn.Name() == "init" && fn.Synthetic != "") {
					bad = append(bad, fmt.Sprintf("%s writes global %s at %s", FullKey(fn), g.Name(), posStr(e.Fset, in.Pos())))
				}
			}
		}
	}
	if len(bad) > 0 {
		res.OK = false
		res.Detail = strings.Join(bad, "; ")
	}
	return res
}

// CallSiteClosure checks that the target function (full name as in types.Func.FullName, or
// "iface:pkg.Iface.Method" for interface invocations) is called only from the allowed functions.
func (e *Engine) CallSiteClosure(name string, target string, allowed []string) SideResult {
	allow := map[string]bool{}
	for _, a := range allowed {
		allow[a] = true
	}
	res := SideResult{Name: name, OK: true}
	var bad []string
	for _, fn := range e.allFuncs([]string{"perun.network/go-perun"}) {
		if isTestFile(e, fn) {
			continue
		}
		for _, b := range fn.Blocks {
			for _, in := range b.Instrs {
				ci, ok := in.(ssa.CallInstruction)
				if !ok {
					continue
				}
				c := ci.Common()
				hit := false
				if c.IsInvoke() {
					if strings.HasPrefix(target, "iface:") {
						if "iface:"+ifaceName(c.Value.Type())+"."+c.Method.Name() == target {
							hit = true
						}
					}
				} else if sf := c.StaticCallee(); sf != nil {
					if fullName(sf) == target {
						hit = true
					}
				}
				if !hit {
					continue
				}
				res.Count++
				if !allow[FullKey(fn)] {
					bad = append(bad, fmt.Sprintf("%s calls %s at %s", FullKey(fn), target, posStr(e.Fset, in.Pos())))
				}
			}
		}
	}
	if len(bad) > 0 {
		res.OK = false
		res.Detail = strings.Join(bad, "; ")
	}
	if res.Count == 0 {
		res.OK = false
		res.Detail = "no call site of " + target + " found (side check is vacuous)"
	}
	return res
}
