package eng

import (
	"fmt"
	"go/token"
	"go/types"
	"sort"
	"strings"

	"golang.org/x/tools/go/ssa"
)

func (e *Engine) doCall(st *State, instr ssa.Value, c *ssa.CallCommon, k Kont) {
	var args []Val
	for _, a := range c.Args {
		args = append(args, e.get(st, a))
	}
	var fv Val
	if _, isB := c.Value.(*ssa.Builtin); !isB {
		fv = e.get(st, c.Value)
	}
	e.callValue(st, c, fv, args, c.Pos(), k)
}

// callValue performs the call described by c with already evaluated callee value and arguments.
func (e *Engine) callValue(st *State, c *ssa.CallCommon, fv Val, args []Val, pos token.Pos, k Kont) {
	if c.IsInvoke() {
		e.invoke(st, c, fv, args, pos, k)
		return
	}
	switch v := c.Value.(type) {
	case *ssa.Builtin:
		e.builtin(st, v, c, args, pos, k)
		return
	case *ssa.Function:
		e.callStatic(st, v, args, nil, pos, k)
		return
	}
	if fx, ok := fv.ann("").(*FuncX); ok {
		a := args
		if fx.Recv != nil {
			a = append([]Val{*fx.Recv}, args...)
		}
		e.callStatic(st, fx.Fn, a, fx.Bindings, pos, k)
		return
	}
	// call through an unknown function value
	e.callOpaque(st, c, fv, args, pos, k)
}

// fnValueName: the source-level name of a function-typed variable that is being called (parameter, captured variable or local).
func fnValueName(v ssa.Value) string {
	switch x := v.(type) {
	case *ssa.Parameter:
		return x.Name()
	case *ssa.FreeVar:
		return x.Name()
	case *ssa.Alloc:
		return x.Comment
	case *ssa.UnOp:
		if x.Op == token.MUL {
			return fnValueName(x.X)
		}
	case *ssa.FieldAddr:
		if st, ok := x.X.Type().Underlying().(*types.Pointer).Elem().Underlying().(*types.Struct); ok {
			return st.Field(x.Field).Name()
		}
	case *ssa.Field:
		if st, ok := x.X.Type().Underlying().(*types.Struct); ok {
			return st.Field(x.Field).Name()
		}
	case *ssa.Lookup:
		// an element of a map of functions: named after the map
		return fnValueName(x.X)
	case *ssa.Global:
		return x.Name()
	}
	return ""
}

func (e *Engine) callOpaque(st *State, c *ssa.CallCommon, fv Val, args []Val, pos token.Pos, k Kont) {
	if n := fnValueName(c.Value); n != "" {
		// call-site clauses can name a call through a function-typed variable as "fn:<variable>"
		e.checkCallSites(st, "fn:"+n, c.Signature(), nil, args, pos)
	}
	tb := e.tb
	e.oblige(st, "nil", "", pos, tb.Neq(fv.T[0], tb.Int(0)), "call of nil function value")
	sig := c.Signature()
	// An unknown function value is treated as a pure, total, non-panicking
	// function of its arguments (listed as an assumption).
	e.Assumed["calls through unknown function values are pure, deterministic and do not panic ("+posStr(e.Fset, pos)+")"] = true
	var flat []*Term
	flat = append(flat, fv.T[0])
	for i, a := range args {
		at := sig.Params().At(min(i, sig.Params().Len()-1)).Type()
		a = e.materialiseIfSlice(st, a, at)
		a = e.flatten(st, at, a)
		flat = append(flat, intTerms(e.tb, a.T)...)
	}
	res := sig.Results()
	mk := func(T types.Type, idx int) Val {
		ls := Leaves(T)
		out := Val{T: make([]*Term, len(ls))}
		for i, l := range ls {
			out.T[i] = tb.App(fmt.Sprintf("fnval_%d_%d_%s%s", len(flat), idx, typeKey(T), l.Path), l.Sort, flat...)
		}
		e.wfVal(st, T, out)
		return out
	}
	switch res.Len() {
	case 0:
		k(st, Val{})
	case 1:
		k(st, mk(res.At(0).Type(), 0))
	default:
		out := Val{Elems: make([]Val, res.Len())}
		for i := 0; i < res.Len(); i++ {
			out.Elems[i] = mk(res.At(i).Type(), i)
		}
		k(st, out)
	}
}

func intTerms(tb *TB, ts []*Term) []*Term {
	out := make([]*Term, len(ts))
	for i, t := range ts {
		if t.Sort == SBool {
			out[i] = tb.Ite(t, tb.Int(1), tb.Int(0))
		} else {
			out[i] = t
		}
	}
	return out
}

func (e *Engine) materialiseIfSlice(st *State, v Val, T types.Type) Val {
	if _, ok := v.ann("").(*SliceX); ok {
		return e.materialise(st, v, T)
	}
	return v
}

func fullName(f *ssa.Function) string {
	if f.Object() != nil {
		if fn, ok := f.Object().(*types.Func); ok {
			return fn.FullName()
		}
	}
	return f.String()
}

// callStatic calls a statically known function: library spec, contract (modular) or inlining.
func (e *Engine) callStatic(st *State, fn *ssa.Function, args []Val, bindings []Val, pos token.Pos, k Kont) {
	name := fullName(fn)
	e.checkCallSites(st, FuncKey(fn), fn.Signature, nil, args, pos)
	if len(st.Frames) == 1 && st.top().Contract != nil && st.top().Contract.CutAfter == FuncKey(fn) {
		inner := k
		e.Assumed["function "+e.cur.Key+" is verified only up to its call of "+FuncKey(fn)+" (cutafter): the remainder of its body is out of scope"] = true
		k = func(st2 *State, res Val) {
			_ = inner
			e.pathEnd()
		}
	}
	if e.Opts.TokenModel {
		h, ok := tokenSpecs[name]
		if !ok && fn.Name() == "verifLink" {
			h, ok = tokenSpecs["verifLink"]
		}
		if ok {
			h(e, st, fn, args, pos, k)
			return
		}
	}
	if h, ok := libSpecs[name]; ok {
		e.Assumed["library spec: "+name] = true
		h(e, st, fn, args, pos, k)
		return
	}
	// look through synthetic wrappers to the declared method for the library table
	if fn.Synthetic != "" && fn.Object() != nil {
		if h, ok := libSpecs[fn.Object().(*types.Func).FullName()]; ok {
			e.Assumed["library spec: "+fn.Object().(*types.Func).FullName()] = true
			h(e, st, fn, args, pos, k)
			return
		}
	}
	if fn.Name() == "init" && fn.Synthetic != "" {
		// initialisers of imported packages: verified separately where they carry global invariants
		k(st, Val{})
		return
	}
	if isLogCall(fn) {
		e.logCall(st, fn, args, pos, k)
		return
	}
	ct := e.contractOf(fn)
	isTop := len(st.Frames) > 0 && st.Frames[0].Fn == fn
	if e.Opts.TokenModel && !isTop && e.Specs.CodecFns != nil && fn.Signature.Recv() == nil && len(st.Frames) > 0 {
		if cd := e.Specs.CodecFns[FullKey(fn)]; cd != nil && !(st.Frames[0].Contract != nil && st.Frames[0].Contract.Inlines[FuncKey(fn)]) && st.Frames[0].Fn.Name() != cd.By && len(args) == 2 {
			if fn.Name() == cd.Enc {
				e.tokSummaryEncodeVal(st, cd, fn.Signature.Params().At(1).Type(), args[1], args[0], pos, k)
			} else {
				e.tokSummaryDecodeInto(st, cd, fn.Signature.Params().At(1).Type(), args[1], args[0], pos, k)
			}
			return
		}
	}
	if e.Opts.TokenModel && !isTop && (fn.Name() == "Encode" || fn.Name() == "Decode") && fn.Signature.Recv() != nil && len(st.Frames) > 0 {
		// (not inside the type's own lemma function: there the real methods are examined, inlined or through their own contracts)
		if cd, T := e.codecOf(fn); cd != nil && !(st.Frames[0].Contract != nil && st.Frames[0].Contract.Inlines[FuncKey(fn)]) && st.Frames[0].Fn.Name() != cd.By {
			if fn.Name() == "Encode" {
				e.tokSummaryEncode(st, cd, T, fn, args, pos, k)
			} else {
				e.tokSummaryDecode(st, cd, T, fn, args, pos, k)
			}
			return
		}
	}
	forceInline := len(st.Frames) > 0 && st.Frames[0].Contract != nil && st.Frames[0].Contract.Inlines[FuncKey(fn)] && !isTop
	if ct != nil && !forceInline && (!ct.Inline || isTop) && !(e.cur != nil && e.cur.Fn == fn && len(st.Frames) == 0) {
		e.modularCall(st, fn, ct, args, bindings, pos, k)
		return
	}
	if len(fn.Blocks) == 0 {
		panic(e.unsupported("unclassified callee without body: " + name))
	}
	pkg := funcPkgPath(fn)
	if !strings.HasPrefix(pkg, "perun.network/go-perun") && !strings.HasPrefix(pkg, "govctest") && !inlineExternal[name] && !strings.HasPrefix(pkg, "polycry.pt/poly-go/math/big") {
		panic(e.unsupported("unclassified external callee: " + name))
	}
	// recursion guard: re-entrant inlining (perunio.Decode -> T.Decode -> perunio.Decode) is fine, unbounded recursion is not
	depth := 0
	for _, fr := range st.Frames {
		if fr.Fn == fn {
			depth++
		}
	}
	if depth >= 6 {
		panic(e.unsupported("recursive call without contract: " + name))
	}
	e.runFunction(st, fn, args, bindings, k)
}

var inlineExternal = map[string]bool{}

func isLogCall(fn *ssa.Function) bool {
	p := funcPkgPath(fn)
	return p == "perun.network/go-perun/log" || p == "log" || strings.HasPrefix(p, "github.com/sirupsen/logrus")
}

// logCall: logging has no effect on the modelled state; Panic* functions panic.
func (e *Engine) logCall(st *State, fn *ssa.Function, args []Val, pos token.Pos, k Kont) {
	e.Assumed["logging calls have no effect on verified state and do not panic below panic level"] = true
	if strings.HasPrefix(fn.Name(), "Panic") || strings.HasPrefix(fn.Name(), "Fatal") {
		e.doPanic(st, pos, "log."+fn.Name(), "panic")
		return
	}
	res := e.havocResults(st, fn.Signature, "log")
	// functions of the log package that return a Logger return a non-nil one
	if fn.Signature.Results().Len() == 1 {
		if _, isI := fn.Signature.Results().At(0).Type().Underlying().(*types.Interface); isI {
			e.assume(st, e.tb.Neq(res.ifTag(), e.tb.Int(0)))
		}
	}
	k(st, res)
}

// havocResults builds fresh result values for a signature.
func (e *Engine) havocResults(st *State, sig *types.Signature, hint string) Val {
	res := sig.Results()
	switch res.Len() {
	case 0:
		return Val{}
	case 1:
		return e.freshVal(st, res.At(0).Type(), hint)
	}
	out := Val{Elems: make([]Val, res.Len())}
	for i := 0; i < res.Len(); i++ {
		out.Elems[i] = e.freshVal(st, res.At(i).Type(), hint)
	}
	return out
}

// invoke handles interface method calls.
func (e *Engine) invoke(st *State, c *ssa.CallCommon, recv Val, args []Val, pos token.Pos, k Kont) {
	tb := e.tb
	e.oblige(st, "nil", "", pos, tb.Neq(recv.ifTag(), tb.Int(0)), "method call on nil interface ("+c.Method.Name()+")")
	if ix, ok := recv.ann("").(*IfaceX); ok {
		// concrete dynamic type: static dispatch
		ms := e.Prog.MethodSets.MethodSet(ix.Dyn)
		sel := ms.Lookup(c.Method.Pkg(), c.Method.Name())
		if sel != nil {
			fn := e.Prog.MethodValue(sel)
			if fn != nil {
				rv := e.unbox(st, recv, ix.Dyn)
				e.callStatic(st, fn, append([]Val{rv}, args...), nil, pos, k)
				return
			}
		}
	}
	it := c.Value.Type()
	iname := ifaceName(it)
	full := iname + "." + c.Method.Name()
	e.checkCallSites(st, full, c.Signature(), it, append([]Val{recv}, args...), pos)
	if h, ok := libIface[full]; ok {
		e.Assumed["interface spec: "+full] = true
		h(e, st, c, recv, args, pos, k)
		return
	}
	if strings.HasSuffix(iname, "log.Logger") || iname == "log.Logger" || strings.Contains(iname, "logrus") {
		e.Assumed["logging calls have no effect on verified state and do not panic below panic level"] = true
		if strings.HasPrefix(c.Method.Name(), "Panic") || strings.HasPrefix(c.Method.Name(), "Fatal") {
			e.doPanic(st, pos, "Logger."+c.Method.Name(), "panic")
			return
		}
		res := e.havocResults(st, c.Signature(), "log")
		if c.Signature().Results().Len() == 1 {
			if _, isI := c.Signature().Results().At(0).Type().Underlying().(*types.Interface); isI {
				e.assume(st, e.tb.Neq(res.ifTag(), e.tb.Int(0)))
			}
		}
		k(st, res)
		return
	}
	if ic, ok := e.Specs.Ifaces[iname]; ok {
		if ct, ok := ic.Methods[c.Method.Name()]; ok {
			e.Assumed["interface contract (assumed for unknown implementations): "+full] = true
			e.modularCallSig(st, c.Signature(), c.Method.Name(), ct, append([]Val{recv}, args...), it, pos, k)
			return
		}
	}
	// the method may be declared in an embedded interface (e.g. AppID embeds encoding.BinaryUnmarshaler)
	if sg, ok := c.Method.Type().(*types.Signature); ok && sg.Recv() != nil {
		decl := ifaceName(sg.Recv().Type()) + "." + c.Method.Name()
		if decl != full {
			if h, ok := libIface[decl]; ok {
				e.Assumed["interface spec: "+decl] = true
				h(e, st, c, recv, args, pos, k)
				return
			}
			if ic, ok := e.Specs.Ifaces[ifaceName(sg.Recv().Type())]; ok {
				if ct, ok := ic.Methods[c.Method.Name()]; ok {
					e.Assumed["interface contract (assumed for unknown implementations): "+decl] = true
					e.modularCallSig(st, c.Signature(), c.Method.Name(), ct, append([]Val{recv}, args...), it, pos, k)
					return
				}
			}
		}
	}
	panic(e.unsupported("interface method without contract: " + full))
}

func ifaceName(t types.Type) string {
	t = types.Unalias(t)
	if n, ok := t.(*types.Named); ok {
		if n.Obj().Pkg() != nil {
			return pkgShort(n.Obj().Pkg()) + "." + n.Obj().Name()
		}
		return n.Obj().Name()
	}
	return canonType(t)
}

// ---- builtins ----

func (e *Engine) builtin(st *State, b *ssa.Builtin, c *ssa.CallCommon, args []Val, pos token.Pos, k Kont) {
	tb := e.tb
	switch b.Name() {
	case "ssa:deferstack":
		k(st, scalar(tb.Int(0)))
	case "ssa:wrapnilchk":
		e.nilCheck(st, args[0], pos, "method value/wrapper called with nil pointer receiver")
		k(st, args[0])
	case "len":
		T := c.Args[0].Type()
		switch u := T.Underlying().(type) {
		case *types.Slice:
			k(st, scalar(args[0].slLen()))
		case *types.Map:
			k(st, scalar(e.mapLen(st, u, args[0].T[0])))
		case *types.Basic:
			k(st, scalar(e.strLen(st, args[0].T[0])))
		case *types.Array:
			k(st, scalar(tb.Int(u.Len())))
		case *types.Pointer:
			k(st, scalar(tb.Int(u.Elem().Underlying().(*types.Array).Len())))
		case *types.Chan:
			r := tb.Fresh("chanlen", SInt)
			e.assume(st, tb.Le(tb.Int(0), r))
			k(st, scalar(r))
		default:
			panic(e.unsupported("len of " + T.String()))
		}
	case "cap":
		T := c.Args[0].Type()
		switch u := T.Underlying().(type) {
		case *types.Slice:
			k(st, scalar(args[0].slCap()))
		case *types.Array:
			k(st, scalar(tb.Int(u.Len())))
		default:
			r := tb.Fresh("cap", SInt)
			e.assume(st, tb.Le(tb.Int(0), r))
			k(st, scalar(r))
		}
	case "append":
		k(st, e.appendOp(st, c, args, pos))
	case "copy":
		k(st, e.copyOp(st, c, args, pos))
	case "delete":
		mt := c.Args[0].Type().Underlying().(*types.Map)
		e.mapDelete(st, mt, args[0].T[0], args[1])
		k(st, Val{})
	case "panic":
		e.doPanic(st, pos, "explicit panic", "panic")
	case "print", "println":
		k(st, Val{})
	case "recover":
		panic(e.unsupported("recover"))
	case "close":
		// close of nil or closed channel panics: track closed flag in ghost state
		ch := args[0].T[0]
		e.oblige(st, "close", "", pos, tb.Neq(ch, tb.Int(0)), "close of nil channel")
		cur, ok := st.Ghost["closed"]
		if !ok {
			cur = tb.Const("G0!closed", SArrB)
		}
		e.oblige(st, "close", "", pos, tb.Not(tb.Select(cur, ch)), "close of closed channel")
		st.Ghost["closed"] = tb.Store(cur, ch, tb.True())
		if st.Disc != nil {
			st.Disc.Ghosts["closed"] = true
		}
		k(st, Val{})
	case "min", "max":
		r := args[0].T[0]
		for _, a := range args[1:] {
			if b.Name() == "min" {
				r = tb.Ite(tb.Lt(a.T[0], r), a.T[0], r)
			} else {
				r = tb.Ite(tb.Gt(a.T[0], r), a.T[0], r)
			}
		}
		k(st, scalar(r))
	default:
		panic(e.unsupported("builtin " + b.Name()))
	}
}

// appendOp models append(s, t...).
func (e *Engine) appendOp(st *State, c *ssa.CallCommon, args []Val, pos token.Pos) Val {
	tb := e.tb
	sT := c.Args[0].Type().Underlying().(*types.Slice)
	elT := sT.Elem()
	s := e.materialiseIfSlice(st, args[0], sT)
	// append([]byte, string...) : opaque result
	if isString(c.Args[1].Type()) {
		n := e.strLen(st, args[1].T[0])
		res := e.allocSlice(st, elT, tb.Add(s.slLen(), n), tb.Add(s.slLen(), n))
		cl := e.elemClass(elT, "", Leaves(elT)[0])
		st.Heap[cl] = tb.Store(e.H(st, cl, SArr2I), res.slArr(), tb.Fresh("appended_bytes", SArrI))
		return res
	}
	t := args[1]
	// number of appended elements
	var n *Term
	var getElem func(i *Term) Val
	var constN int64 = -1
	if sx, ok := t.ann("").(*SliceX); ok {
		cc := st.Cells[sx.Cell]
		if cc.Spill == nil && cc.V.Elems != nil {
			constN = int64(sx.Hi - sx.Lo)
			n = tb.Int(constN)
			els := cc.V.Elems[sx.Lo:sx.Hi]
			getElem = func(i *Term) Val {
				ci, _ := i.ConstInt()
				return e.flatten(st, elT, els[ci])
			}
		} else {
			t = e.materialise(st, t, sT)
		}
	}
	if n == nil {
		n = t.slLen()
	}
	if c, ok := n.ConstInt(); ok {
		constN = c
	}
	newLen := tb.Add(s.slLen(), n)
	// Result: a fresh backing array holding old elements followed by the new
	// ones, or (when capacity suffices) the same array written in place.
	// Both cases are represented: arr' = ite(fits, arr, fresh).
	fits := tb.And(tb.Le(newLen, s.slCap()), tb.Neq(s.slArr(), tb.Int(0)))
	if constN == 0 {
		return s
	}
	fresh := e.newRef(st)
	growCap := tb.Fresh("append_cap", SInt)
	e.assume(st, tb.Ge(growCap, newLen))
	e.assume(st, tb.Le(growCap, tb.BigInt(maxLen)))
	arr := tb.Ite(fits, s.slArr(), fresh)
	off := tb.Ite(fits, s.slOff(), tb.Int(0))
	capT := tb.Ite(fits, s.slCap(), growCap)
	for li, l := range Leaves(elT) {
		cl := e.elemClass(elT, "", l)
		h := e.H(st, cl, ArrOf(ArrOf(l.Sort)))
		oldRow := tb.Select(h, s.slArr())
		// new row content: in the fresh case, positions [0,len) copy old[off+i]; expressed with a fresh row constrained pointwise
		var row *Term
		if fits.IsTrue() {
			row = oldRow
		} else {
			fr := tb.Fresh("append_row", ArrOf(l.Sort))
			bv := tb.BoundVar("i", SInt)
			e.assume(st, tb.Forall([]*Term{bv}, tb.Implies(tb.And(tb.Le(tb.Int(0), bv), tb.Lt(bv, s.slLen())),
				tb.Eq(tb.Select(fr, bv), tb.Select(oldRow, tb.Add(s.slOff(), bv)))), []*Term{tb.Select(fr, bv)}))
			row = tb.Ite(fits, oldRow, fr)
		}
		if constN >= 0 && constN <= 8 {
			for i := int64(0); i < constN; i++ {
				var ev Val
				if getElem != nil {
					ev = getElem(tb.Int(i))
				} else {
					ev = e.loadPx(st, &PtrX{Kind: PElem, Ref: t.slArr(), Idx: tb.Idx(t.slOff(), tb.Int(i)), Root: elT, Elem: -1}, elT)
				}
				if ev.Ann != nil {
					ev = e.escape(st, elT, ev)
				}
				row = tb.Store(row, tb.Add(tb.Add(off, s.slLen()), tb.Int(i)), ev.T[li])
			}
		} else {
			// symbolic number of appended elements: pointwise constraint
			nr := tb.Fresh("append_row2", ArrOf(l.Sort))
			bv := tb.BoundVar("j", SInt)
			srcRow := tb.Select(h, t.slArr())
			base := tb.Add(off, s.slLen())
			e.assume(st, tb.Forall([]*Term{bv}, tb.Eq(tb.Select(nr, bv),
				tb.Ite(tb.And(tb.Le(base, bv), tb.Lt(bv, tb.Add(base, n))), tb.Select(srcRow, tb.Add(t.slOff(), tb.Sub(bv, base))), tb.Select(row, bv))), []*Term{tb.Select(nr, bv)}))
			row = nr
		}
		e.setH(st, cl, tb.Store(h, arr, row))
	}
	return Val{T: []*Term{arr, off, newLen, capT}}
}

func (e *Engine) copyOp(st *State, c *ssa.CallCommon, args []Val, pos token.Pos) Val {
	tb := e.tb
	dT := c.Args[0].Type().Underlying().(*types.Slice)
	elT := dT.Elem()
	d := e.materialiseIfSlice(st, args[0], dT)
	var srcLen *Term
	var srcRowOf func(l Leaf) (*Term, *Term)
	if isString(c.Args[1].Type()) {
		srcLen = e.strLen(st, args[1].T[0])
		row := tb.App("strbytes", SArrI, args[1].T[0])
		srcRowOf = func(l Leaf) (*Term, *Term) { return row, tb.Int(0) }
	} else {
		s := e.materialiseIfSlice(st, args[1], dT)
		srcLen = s.slLen()
		srcRowOf = func(l Leaf) (*Term, *Term) {
			return tb.Select(e.H(st, e.elemClass(elT, "", l), ArrOf(ArrOf(l.Sort))), s.slArr()), s.slOff()
		}
	}
	n := tb.Ite(tb.Lt(srcLen, d.slLen()), srcLen, d.slLen())
	for _, l := range Leaves(elT) {
		cl := e.elemClass(elT, "", l)
		h := e.H(st, cl, ArrOf(ArrOf(l.Sort)))
		srow, soff := srcRowOf(l)
		drow := tb.Select(h, d.slArr())
		nr := tb.Fresh("copy_row", ArrOf(l.Sort))
		bv := tb.BoundVar("i", SInt)
		e.assume(st, tb.Forall([]*Term{bv}, tb.Eq(tb.Select(nr, bv),
			tb.Ite(tb.And(tb.Le(d.slOff(), bv), tb.Lt(bv, tb.Add(d.slOff(), n))), tb.Select(srow, tb.Add(soff, tb.Sub(bv, d.slOff()))), tb.Select(drow, bv))), []*Term{tb.Select(nr, bv)}))
		e.setH(st, cl, tb.Store(h, d.slArr(), nr))
	}
	e.viewWriteBack(st, d)
	return scalar(n)
}

// viewWriteBack propagates a write through a slice view of a heap-stored array back to the array token.
func (e *Engine) viewWriteBack(st *State, d Val) {
	vo, ok := st.Views[d.slArr().ID]
	if !ok {
		return
	}
	tok := e.tb.Fresh("arrtok", SInt)
	if at, ok := vo.T.Underlying().(*types.Array); ok && len(Leaves(at.Elem())) == 1 && Leaves(at.Elem())[0].Sort == SInt {
		// the new token is the one determined by the array's elements after the write (pack is a function of the content)
		cl := e.elemClass(at.Elem(), "", Leaves(at.Elem())[0])
		row := e.tb.Select(e.H(st, cl, SArr2I), d.slArr())
		tok = e.tb.App("packr_"+typeKey(vo.T), SInt, row, e.tb.Int(0), e.tb.Int(vo.N))
	}
	px := vo.px
	e.storePx(st, &px, vo.T, Val{T: []*Term{tok}})
}

// ---- modular calls ----

func (e *Engine) modularCall(st *State, fn *ssa.Function, ct *Contract, args []Val, bindings []Val, pos token.Pos, k Kont) {
	ct.Used = true
	if ct.Trusted {
		e.Assumed["trusted contract: "+FullKey(fn)] = true
	}
	e.pendingFreeVars = nil
	if len(fn.FreeVars) > 0 && len(bindings) == len(fn.FreeVars) {
		// a closure called through its contract: its captured variables (references to them) are in scope of the contract
		e.pendingFreeVars = map[string]specBind{}
		for i, fv := range fn.FreeVars {
			e.pendingFreeVars[fv.Name()] = specBind{bindings[i], fv.Type()}
		}
	}
	e.modularCallSig(st, fn.Signature, FuncKey(fn), ct, args, nil, pos, k)
	_ = fn
}

// addPositional adds the aliases <prefix>0, <prefix>1, ... for the parameters (receiver excluded) of a signature whose
// names/values are already bound in env, so that contracts need not depend on parameter names. Existing names win.
func addPositional(env map[string]specBind, names []string, sig *types.Signature, prefix string) {
	off := len(names) - sig.Params().Len()
	for i := 0; i < sig.Params().Len(); i++ {
		n := fmt.Sprintf("%s%d", prefix, i)
		if _, have := env[n]; have {
			continue
		}
		if b, ok := env[names[off+i]]; ok {
			env[n] = b
		}
	}
}

// paramNames returns receiver+parameter names and types of a signature.
func sigParams(sig *types.Signature, recvIface types.Type) (names []string, typs []types.Type) {
	if r := sig.Recv(); r != nil {
		n := r.Name()
		if n == "" || n == "_" {
			n = "recv"
		}
		names = append(names, n)
		if recvIface != nil {
			typs = append(typs, recvIface)
		} else {
			typs = append(typs, r.Type())
		}
	} else if recvIface != nil {
		names = append(names, "recv")
		typs = append(typs, recvIface)
	}
	for i := 0; i < sig.Params().Len(); i++ {
		p := sig.Params().At(i)
		n := p.Name()
		if n == "" || n == "_" {
			n = fmt.Sprintf("arg%d", i)
		}
		names = append(names, n)
		typs = append(typs, p.Type())
	}
	return
}

func resultNames(sig *types.Signature, ct *Contract) []string {
	var out []string
	for i := 0; i < sig.Results().Len(); i++ {
		n := sig.Results().At(i).Name()
		if ct != nil && i < len(ct.Results) && ct.Results[i] != "" {
			n = ct.Results[i]
		}
		if n == "" || n == "_" {
			n = fmt.Sprintf("result%d", i)
			if sig.Results().Len() == 1 {
				n = "result"
			}
		}
		out = append(out, n)
	}
	return out
}

func (e *Engine) specPkg(ct *Contract) *types.Package {
	if p, ok := e.Pkgs[ct.Pkg]; ok {
		return p.Types
	}
	return nil
}

func (e *Engine) modularCallSig(st *State, sig *types.Signature, name string, ct *Contract, args []Val, recvIface types.Type, pos token.Pos, k Kont) {
	tb := e.tb
	names, typs := sigParams(sig, recvIface)
	if len(names) != len(args) {
		panic(fmt.Sprintf("internal: modular call %s: %d params, %d args", name, len(names), len(args)))
	}
	env := map[string]specBind{}
	for i := range names {
		a := args[i]
		// interior pointers and local slices passed to modular callees: copy-in (only when the callee may write)
		if len(ct.Modifies) > 0 {
			a = e.copyIn(st, a, typs[i])
		} else {
			a = e.materialiseIfSlice(st, a, typs[i])
			a = e.plainPtr(st, a)
		}
		args[i] = a
		env[names[i]] = specBind{a, typs[i]}
	}
	for n, b := range e.pendingFreeVars {
		if _, shadow := env[n]; !shadow {
			env[n] = b
		}
	}
	e.pendingFreeVars = nil
	// positional aliases arg0, arg1, ... (receiver excluded) so that interface contracts do not depend on parameter names
	{
		off := len(names) - sig.Params().Len()
		for i := 0; i < sig.Params().Len(); i++ {
			env[fmt.Sprintf("arg%d", i)] = env[names[off+i]]
		}
		if off == 1 {
			env["recv"] = env[names[0]]
		}
	}
	pre := &specCtx{e: e, st: st, heap: st.Heap, oldHeap: st.Heap, oldAlloc: st.Alloc, env: env, pkg: e.specPkg(ct)}
	for i, rq := range ct.Requires {
		g := e.evalClause(pre, rq)
		e.oblige(st, "pre", fmt.Sprintf("%s.%d", name, i+1), pos, g, "precondition of "+name+": "+rq.Src)
	}
	callHeap := snapshot(st.Heap)
	callAlloc := st.Alloc
	callGhost := map[string]*Term{}
	for kx, v := range st.Ghost {
		callGhost[kx] = v
	}
	// havoc
	if ct.ModAny {
		// the callee may write anywhere: every heap class and every ghost variable becomes unknown
		// (local variables that never escaped are untouched); well-formedness of the new heap is restated
		e.havocAll(st)
	} else {
		var locs []Loc
		for _, m := range ct.Modifies {
			locs = append(locs, e.evalLocsClause(pre, m)...)
		}
		e.havocLocs(st, locs)
		// allocation may have advanced
		na := tb.Fresh("alloc", SInt)
		e.assume(st, tb.Ge(na, st.Alloc))
		st.Alloc = na
		st.noteAlloc()
	}
	// results
	res := e.havocResults(st, sig, "r_"+sanitize(name))
	rn := resultNames(sig, ct)
	postEnv := map[string]specBind{}
	for kx, v := range env {
		postEnv[kx] = v
	}
	switch len(rn) {
	case 0:
	case 1:
		postEnv[rn[0]] = specBind{res, sig.Results().At(0).Type()}
		postEnv["result"] = specBind{res, sig.Results().At(0).Type()}
	default:
		for i, n := range rn {
			postEnv[n] = specBind{res.Elems[i], sig.Results().At(i).Type()}
			postEnv[fmt.Sprintf("result%d", i)] = specBind{res.Elems[i], sig.Results().At(i).Type()}
		}
	}
	post := &specCtx{e: e, st: st, heap: st.Heap, oldHeap: callHeap, oldAlloc: callAlloc, env: postEnv, pkg: e.specPkg(ct), oldGhost: callGhost}
	for _, en := range ct.Ensures {
		if en.Trusted {
			e.Assumed["trusted postcondition of "+ct.Pkg+"::"+ct.Key+" (assumed at call sites, not checked): "+en.Src] = true
		}
		e.assume(st, e.evalClause(post, en))
	}
	if ct.NoFrame && !ct.ModAny {
		// the objects the callee built refer to allocated objects only: well-formedness of the heap after the call, which the
		// callee's postcondition describes only as far as it names the new objects' contents
		var cls []string
		for cl, k := range e.classKinds {
			if k == LKRef || k == LKSlArr {
				cls = append(cls, cl)
			}
		}
		sort.Strings(cls)
		r := tb.BoundVar("r", SInt)
		i := tb.BoundVar("i", SInt)
		// (stated for every allocated object: the heap below the new allocation bound is well formed as a whole)
		in := tb.And(tb.Le(tb.Int(0), r), tb.Lt(r, st.Alloc))
		for _, cl := range cls {
			h, ok := st.Heap[cl]
			if !ok {
				h = tb.Const("H!"+cl, e.classSorts[cl])
			}
			switch e.classSorts[cl] {
			case SArrI:
				v := tb.Select(h, r)
				e.assumeQuiet(st, tb.Forall([]*Term{r}, tb.Implies(in, tb.And(tb.Le(tb.Int(0), v), tb.Lt(v, st.Alloc))), []*Term{v}))
			case SArr2I:
				v := tb.Select(tb.Select(h, r), i)
				e.assumeQuiet(st, tb.Forall([]*Term{r, i}, tb.Implies(in, tb.And(tb.Le(tb.Int(0), v), tb.Lt(v, st.Alloc))), []*Term{v}))
			}
		}
	}
	// copy-out for interior pointers
	if len(ct.Modifies) > 0 {
		e.copyOut(st)
	}
	k(st, res)
}

// evalClause evaluates a clause, turning spec errors into generator errors.
func (e *Engine) evalClause(c *specCtx, cl Clause) (t *Term) {
	defer func() {
		if r := recover(); r != nil {
			if se, ok := r.(specErr); ok {
				panic(e.unsupported(fmt.Sprintf("spec error at %s:%d: %s (in %q)", shortFile(cl.File), cl.Line, se.msg, cl.Src)))
			}
			panic(r)
		}
	}()
	return c.evalBool(cl.E)
}

// evalClauseVal evaluates a clause that denotes an integer value (record clauses).
func (e *Engine) evalClauseVal(c *specCtx, cl Clause) (t *Term) {
	defer func() {
		if r := recover(); r != nil {
			if se, ok := r.(specErr); ok {
				panic(e.unsupported(fmt.Sprintf("spec error at %s:%d: %s (in %q)", shortFile(cl.File), cl.Line, se.msg, cl.Src)))
			}
			panic(r)
		}
	}()
	v, _ := c.eval(cl.E)
	return v.T[0]
}

func (e *Engine) evalLocsClause(c *specCtx, cl Clause) (l []Loc) {
	defer func() {
		if r := recover(); r != nil {
			if se, ok := r.(specErr); ok {
				panic(e.unsupported(fmt.Sprintf("spec error at %s:%d: %s (in %q)", shortFile(cl.File), cl.Line, se.msg, cl.Src)))
			}
			panic(r)
		}
	}()
	return c.evalLocs(cl.E)
}

func shortFile(f string) string { return strings.TrimPrefix(f, "/repo/") }

// havocAll makes the whole heap and all ghost state unknown (callee with "modifies *").
func (e *Engine) havocAll(st *State) {
	tb := e.tb
	var classes []string
	for cl := range e.classSorts {
		classes = append(classes, cl)
	}
	sort.Strings(classes)
	for _, cl := range classes {
		if strings.HasPrefix(cl, "G:") {
			// package-level variables: unknown as well
			st.Heap[cl] = tb.Fresh("hva_"+cl, e.classSorts[cl])
			st.Written[cl] = true
			if st.Disc != nil {
				st.Disc.Classes[cl] = true
			}
			continue
		}
		e.setH(st, cl, tb.Fresh("hva_"+cl, e.classSorts[cl]))
	}
	for g := range ghostSorts {
		st.Ghost[g] = tb.Fresh("hvg_"+g, ghostSorts[g])
		if st.Disc != nil {
			st.Disc.Ghosts[g] = true
		}
	}
	for g, old := range st.Ghost {
		if _, known := ghostSorts[g]; known || strings.HasPrefix(g, "view:") {
			continue
		}
		st.Ghost[g] = tb.Fresh("hvg_"+sanitize(g), old.Sort)
		if st.Disc != nil {
			st.Disc.Ghosts[g] = true
		}
	}
	na := tb.Fresh("alloc", SInt)
	e.assume(st, tb.Ge(na, st.Alloc))
	st.Alloc = na
	st.noteAlloc()
	// well-formedness of the unknown heap: stored references denote allocated objects, unsigned values are in range
	for _, cl := range classes {
		h := st.Heap[cl]
		k, ok := e.classKinds[cl]
		if !ok {
			continue
		}
		if k == LKInt || k == LKSlLen || k == LKSlCap || k == LKSlOff {
			if ax := e.rangeAxiom(cl, h); ax != nil {
				e.assumeQuiet(st, ax)
			}
			continue
		}
		if k != LKRef && k != LKSlArr {
			continue
		}
		r := tb.BoundVar("r", SInt)
		switch h.Sort {
		case SArrI:
			v := tb.Select(h, r)
			e.assumeQuiet(st, tb.Forall([]*Term{r}, tb.And(tb.Le(tb.Int(0), v), tb.Lt(v, st.Alloc)), []*Term{v}))
		case SArr2I:
			i := tb.BoundVar("i", SInt)
			v := tb.Select(tb.Select(h, r), i)
			e.assumeQuiet(st, tb.Forall([]*Term{r, i}, tb.And(tb.Le(tb.Int(0), v), tb.Lt(v, st.Alloc)), []*Term{v}))
		}
	}
}

// havocLocs replaces the contents of the given locations by fresh values.
func (e *Engine) havocLocs(st *State, locs []Loc) {
	tb := e.tb
	for _, l := range locs {
		if strings.HasPrefix(l.Class, "ghost:") {
			name := strings.TrimPrefix(l.Class, "ghost:")
			gs, ok := ghostSorts[name]
			if !ok && strings.HasPrefix(name, "rec:") {
				// record arrays of loops (rec("NAME", k)): iteration -> value
				gs, ok = SArrI, true
				ghostSorts[name] = SArrI
			}
			if !ok {
				gs = SInt
			}
			st.Ghost[name] = tb.Fresh("ghost_"+name, gs)
			if st.Disc != nil {
				st.Disc.Ghosts[name] = true
			}
			continue
		}
		h := e.H(st, l.Class, l.Sort)
		if l.All {
			nh := tb.Fresh("hv_all_"+l.Class, l.Sort)
			e.setH(st, l.Class, nh)
			if ax := e.rangeAxiom(l.Class, nh); ax != nil {
				e.assumeQuiet(st, ax)
			}
			continue
		}
		switch {
		case l.Idx == nil:
			nv := tb.Fresh("hv_"+l.Class, l.Sort.ElemSort())
			e.setH(st, l.Class, tb.Store(h, l.Ref, nv))
			if rg, ok := e.classRanges[l.Class]; ok {
				if nv.Sort == SInt {
					e.assumeQuiet(st, tb.And(tb.Le(tb.BigInt(rg[0]), nv), tb.Le(nv, tb.BigInt(rg[1]))))
				} else if nv.Sort == SArrI {
					i := tb.BoundVar("i", SInt)
					v := tb.Select(nv, i)
					e.assumeQuiet(st, tb.Forall([]*Term{i}, tb.And(tb.Le(tb.BigInt(rg[0]), v), tb.Le(v, tb.BigInt(rg[1]))), []*Term{v}))
				}
			}
		default:
			row := tb.Select(h, l.Ref)
			nv := tb.Fresh("hv_"+l.Class, l.Sort.ElemSort().ElemSort())
			e.setH(st, l.Class, tb.Store(h, l.Ref, tb.Store(row, l.Idx, nv)))
			if rg, ok := e.classRanges[l.Class]; ok && nv.Sort == SInt {
				e.assumeQuiet(st, tb.And(tb.Le(tb.BigInt(rg[0]), nv), tb.Le(nv, tb.BigInt(rg[1]))))
			}
		}
	}
}

// pendingCopyOut: interior pointers passed to modular callees are copied into a
// temporary object before the call and copied back afterwards.
type copyRec struct {
	tmp *Term
	px  PtrX
	T   types.Type
}

func (e *Engine) copyIn(st *State, a Val, T types.Type) Val {
	if _, ok := a.ann("").(*SliceX); ok {
		return e.materialise(st, a, T)
	}
	px, ok := a.ann("").(*PtrX)
	if !ok {
		return Val{T: a.T, Ann: a.Ann}
	}
	pt, isPtr := T.Underlying().(*types.Pointer)
	if !isPtr {
		return a
	}
	PT := pt.Elem()
	if px.Kind == PField && px.Path == "" {
		return scalar(px.Ref)
	}
	if px.Kind == PLocal && px.Path == "" && px.Elem < 0 {
		if _, isArr := st.Cells[px.Cell].Typ.Underlying().(*types.Array); !isArr {
			return scalar(e.spillObject(st, px.Cell))
		}
	}
	if _, isArr := PT.Underlying().(*types.Array); isArr {
		panic(e.unsupported("array pointer passed to a function under contract"))
	}
	v := e.loadPx(st, px, PT)
	r := e.newRef(st)
	e.storePx(st, &PtrX{Kind: PField, Ref: r, Root: PT, Elem: -1}, PT, v)
	e.copies = append(e.copies, copyRec{tmp: r, px: *px, T: PT})
	e.Assumed["interior pointers passed to functions under contract are modelled by copy-in/copy-out (callee neither retains nor aliases them)"] = true
	return scalar(r)
}

func (e *Engine) copyOut(st *State) {
	for _, c := range e.copies {
		v := e.loadPx(st, &PtrX{Kind: PField, Ref: c.tmp, Root: c.T, Elem: -1}, c.T)
		px := c.px
		e.storePx(st, &px, c.T, v)
	}
	e.copies = nil
}

// checkCallSites emits the call-site obligations of the current frame's contract for this callee.
func (e *Engine) checkCallSites(st *State, calleeKey string, sig *types.Signature, recvIface types.Type, args []Val, pos token.Pos) {
	// every function on the (inline) call stack that carries a call-site clause for this callee is checked:
	// the call may happen inside a helper inlined into the function that states the obligation
	for fi := len(st.Frames) - 1; fi >= 0; fi-- {
		e.checkCallSitesFrame(st, st.Frames[fi], calleeKey, sig, recvIface, args, pos)
	}
}

func (e *Engine) checkCallSitesFrame(st *State, fr *Frame, calleeKey string, sig *types.Signature, recvIface types.Type, args []Val, pos token.Pos) {
	if fr.Contract == nil || len(fr.Contract.CallSites) == 0 {
		return
	}
	for i := range fr.Contract.CallSites {
		cs := &fr.Contract.CallSites[i]
		if cs.Callee != calleeKey {
			continue
		}
		cs.Hits++
		names, typs := sigParams(sig, recvIface)
		env := map[string]specBind{}
		// the enclosing function's parameters (entry values) first, the callee's parameters shadow them
		on, ot := sigParams(fr.Fn.Signature, nil)
		for j := range on {
			if j < len(fr.Params) {
				env[on[j]] = specBind{fr.Params[j], ot[j]}
				// outer_<name>: the enclosing function's parameter even where a callee parameter of the same name shadows it
				env["outer_"+on[j]] = specBind{fr.Params[j], ot[j]}
			}
		}
		{
			oe := map[string]specBind{}
			for j := range on {
				if j < len(fr.Params) {
					oe[on[j]] = specBind{fr.Params[j], ot[j]}
				}
			}
			addPositional(oe, on, fr.Fn.Signature, "outer_arg")
			for n, b := range oe {
				if strings.HasPrefix(n, "outer_arg") {
					env[n] = b
				}
			}
		}
		// captured variables of a closure (references to the variables)
		for _, fv := range fr.Fn.FreeVars {
			if v, ok := fr.Regs[fv]; ok {
				env[fv.Name()] = specBind{v, fv.Type()}
			}
		}
		for j := range names {
			if j < len(args) {
				env[names[j]] = specBind{args[j], typs[j]}
			}
		}
		off := len(names) - sig.Params().Len()
		for j := 0; j < sig.Params().Len(); j++ {
			env[fmt.Sprintf("arg%d", j)] = env[names[off+j]]
		}
		if off == 1 {
			env["recv"] = env[names[0]]
		}
		// old(...) in a call-site clause: the entry of the function that carries the clause
		oh, oa := e.entryHeap, e.entryAlloc
		if len(st.Frames) > 0 && fr != st.Frames[0] && fr.EntryHeap != nil {
			oh, oa = fr.EntryHeap, fr.EntryAlloc
		}
		sc := &specCtx{e: e, st: st, heap: st.Heap, oldHeap: oh, oldAlloc: oa, env: env, pkg: e.specPkg(fr.Contract), frame: fr}
		e.oblige(st, "callsite", calleeKey, pos, e.evalClause(sc, cs.Clause), "call-site obligation for "+calleeKey+": "+cs.Clause.Src)
	}
}
