package eng

import (
	"go/types"

	"golang.org/x/tools/go/ssa"
)

func (e *Engine) mapDomClass(mt *types.Map) string { return "MD:" + typeKey(mt) }
func (e *Engine) mapValClass(mt *types.Map, l Leaf) string {
	c := "MV:" + typeKey(mt) + l.Path
	e.noteKind(c, l)
	return c
}

// mapKey encodes a key value as a single Int term.
func (e *Engine) mapKey(st *State, KT types.Type, k Val) *Term {
	tb := e.tb
	if KT != nil {
		k = e.flatten(st, KT, k)
	}
	if len(k.T) == 1 {
		if k.T[0].Sort == SBool {
			return tb.Ite(k.T[0], tb.Int(1), tb.Int(0))
		}
		return k.T[0]
	}
	name := "mkkey"
	if KT != nil {
		name = "mkkey_" + typeKey(KT)
	}
	var args []*Term
	for _, t := range k.T {
		if t.Sort == SBool {
			t = tb.Ite(t, tb.Int(1), tb.Int(0))
		}
		args = append(args, t)
	}
	r := tb.App(name, SInt, args...)
	// injectivity: quantified projection axiom, once per key constructor
	ax, ok := e.initAxioms["key:"+name]
	if !ok {
		var bvs []*Term
		for i := range args {
			bvs = append(bvs, tb.BoundVar("k"+string(rune('a'+i)), SInt))
		}
		app := tb.App(name, SInt, bvs...)
		var cs []*Term
		for i := range args {
			cs = append(cs, tb.Eq(tb.App(name+"_proj"+string(rune('0'+i)), SInt, app), bvs[i]))
		}
		ax = tb.Forall(bvs, tb.And(cs...), []*Term{app})
		e.initAxioms["key:"+name] = ax
	}
	e.assumeQuiet(st, ax)
	return r
}

func (e *Engine) lookup(st *State, x *ssa.Lookup) Val {
	tb := e.tb
	m := e.get(st, x.X)
	k := e.get(st, x.Index)
	mt, ok := x.X.Type().Underlying().(*types.Map)
	if !ok {
		// string index
		idx := k.T[0]
		e.oblige(st, "bounds", "", x.Pos(), tb.And(tb.Le(tb.Int(0), idx), tb.Lt(idx, e.strLen(st, m.T[0]))), "string index out of range")
		r := tb.App("strbyte", SInt, m.T[0], idx)
		e.assume(st, tb.And(tb.Le(tb.Int(0), r), tb.Le(r, tb.Int(255))))
		return scalar(r)
	}
	kk := e.mapKey(st, mt.Key(), k)
	in := tb.And(tb.Neq(m.T[0], tb.Int(0)), tb.Select(tb.Select(e.H(st, e.mapDomClass(mt), SArr2B), m.T[0]), kk))
	ls := Leaves(mt.Elem())
	z := e.flatten(st, mt.Elem(), e.zeroVal(mt.Elem()))
	out := Val{T: make([]*Term, len(ls))}
	raw := Val{T: make([]*Term, len(ls))}
	for i, l := range ls {
		raw.T[i] = tb.Select(tb.Select(e.H(st, e.mapValClass(mt, l), ArrOf(ArrOf(l.Sort))), m.T[0]), kk)
		out.T[i] = tb.Ite(in, raw.T[i], z.T[i])
	}
	e.wfVal(st, mt.Elem(), raw)
	if x.CommaOk {
		return Val{Elems: []Val{out, scalar(in)}}
	}
	return out
}

func (e *Engine) mapUpdate(st *State, x *ssa.MapUpdate) {
	tb := e.tb
	m := e.get(st, x.Map)
	k := e.get(st, x.Key)
	v := e.get(st, x.Value)
	mt := x.Map.Type().Underlying().(*types.Map)
	e.oblige(st, "nilmap", "", x.Pos(), tb.Neq(m.T[0], tb.Int(0)), "assignment to entry in nil map")
	e.mapStore(st, mt, m.T[0], k, v)
}

func (e *Engine) mapStore(st *State, mt *types.Map, m *Term, k, v Val) {
	tb := e.tb
	kk := e.mapKey(st, mt.Key(), k)
	dc := e.mapDomClass(mt)
	d := e.H(st, dc, SArr2B)
	was := tb.Select(tb.Select(d, m), kk)
	e.setH(st, dc, tb.Store(d, m, tb.Store(tb.Select(d, m), kk, tb.True())))
	lc := "MLen:" + typeKey(mt)
	lh := e.H(st, lc, SArrI)
	e.setH(st, lc, tb.Store(lh, m, tb.Add(tb.Select(lh, m), tb.Ite(was, tb.Int(0), tb.Int(1)))))
	v = e.flatten(st, mt.Elem(), v)
	v = e.escape(st, mt.Elem(), v)
	for i, l := range Leaves(mt.Elem()) {
		vc := e.mapValClass(mt, l)
		h := e.H(st, vc, ArrOf(ArrOf(l.Sort)))
		e.setH(st, vc, tb.Store(h, m, tb.Store(tb.Select(h, m), kk, v.T[i])))
	}
}

func (e *Engine) mapDelete(st *State, mt *types.Map, m *Term, k Val) {
	tb := e.tb
	kk := e.mapKey(st, mt.Key(), k)
	dc := e.mapDomClass(mt)
	d := e.H(st, dc, SArr2B)
	was := tb.And(tb.Neq(m, tb.Int(0)), tb.Select(tb.Select(d, m), kk))
	e.setH(st, dc, tb.Store(d, m, tb.Store(tb.Select(d, m), kk, tb.False())))
	lc := "MLen:" + typeKey(mt)
	lh := e.H(st, lc, SArrI)
	e.setH(st, lc, tb.Store(lh, m, tb.Sub(tb.Select(lh, m), tb.Ite(was, tb.Int(1), tb.Int(0)))))
}

func (e *Engine) mapLen(st *State, mt *types.Map, m *Term) *Term {
	tb := e.tb
	r := tb.Select(e.H(st, "MLen:"+typeKey(mt), SArrI), m)
	e.assume(st, tb.Le(tb.Int(0), r))
	e.assume(st, tb.Implies(tb.Eq(m, tb.Int(0)), tb.Eq(r, tb.Int(0))))
	// a map of positive length has some key (witness function)
	dom := tb.Select(e.H(st, e.mapDomClass(mt), SArr2B), m)
	e.assume(st, tb.Implies(tb.Gt(r, tb.Int(0)), tb.Select(dom, tb.App("mapwit_"+typeKey(mt), SInt, dom))))
	return r
}

// rangeStart creates a map iterator.
func (e *Engine) rangeStart(st *State, x *ssa.Range) Val {
	tb := e.tb
	mt, ok := x.X.Type().Underlying().(*types.Map)
	if !ok {
		panic(e.unsupported("range over string"))
	}
	m := e.get(st, x.X)
	e.iterCtr++
	id := e.iterCtr
	domT := tb.Ite(tb.Eq(m.T[0], tb.Int(0)), tb.ConstArr(SArrB, tb.False()), tb.Select(e.H(st, e.mapDomClass(mt), SArr2B), m.T[0]))
	// a name for the domain, so that quantifier patterns over it contain no if-then-else
	dom := tb.Fresh("rangedom", SArrB)
	e.assume(st, tb.Eq(dom, domT))
	st.Iters[id] = iterState{Map: m.T[0], Visited: tb.ConstArr(SArrB, tb.False()), Dom: dom, KeyT: mt.Key(), ValT: mt.Elem(), Count: tb.Int(0), Len0: e.mapLen(st, mt, m.T[0])}
	return Val{T: []*Term{tb.Int(int64(id))}, Ann: map[string]Ann{"": &IterX{ID: id, KeyT: mt.Key(), ValT: mt.Elem()}}}
}

// rangeNext yields an arbitrary not-yet-visited key of the iteration domain.
func (e *Engine) rangeNext(st *State, x *ssa.Next) Val {
	tb := e.tb
	itv := e.get(st, x.Iter)
	ix, ok := itv.ann("").(*IterX)
	if !ok {
		panic(e.unsupported("next on non-map iterator"))
	}
	it := st.Iters[ix.ID]
	mt := types.NewMap(it.KeyT, it.ValT)
	okT := tb.Fresh("rng_ok", SBool)
	// the key as a value of the key type
	kv := e.freshVal(st, it.KeyT, "rng_k")
	kk := e.mapKey(st, it.KeyT, kv)
	// ok  ==> key in domain and not visited ; !ok ==> every key of the domain was visited
	e.assume(st, tb.Implies(okT, tb.And(tb.Select(it.Dom, kk), tb.Not(tb.Select(it.Visited, kk)))))
	bv := tb.BoundVar("k", SInt)
	e.assume(st, tb.Implies(tb.Not(okT), tb.Forall([]*Term{bv}, tb.Implies(tb.Select(it.Dom, bv), tb.Select(it.Visited, bv)), []*Term{tb.Select(it.Dom, bv)})))
	// value: current map content at the key
	ls := Leaves(it.ValT)
	vv := Val{T: make([]*Term, len(ls))}
	for i, l := range ls {
		vv.T[i] = tb.Select(tb.Select(e.H(st, e.mapValClass(mt, l), ArrOf(ArrOf(l.Sort))), it.Map), kk)
	}
	e.wfVal(st, it.ValT, vv)
	it.Visited = tb.Ite(okT, tb.Store(it.Visited, kk, tb.True()), it.Visited)
	if it.Count != nil && it.Len0 != nil && e.Opts.TokenModel {
		// a range over a map yields exactly as many keys as the map holds (the loops in scope do not modify the map they range over)
		e.Assumed["map iteration (round-trip lemmas only): a range loop yields each key once and exactly len(map) keys; the encoders in scope do not modify the map they range over"] = true
		e.assume(st, tb.Implies(tb.Not(okT), tb.Eq(it.Count, it.Len0)))
		e.assume(st, tb.Implies(okT, tb.Lt(it.Count, it.Len0)))
	}
	if it.Count != nil {
		it.Count = tb.Ite(okT, tb.Add(it.Count, tb.Int(1)), it.Count)
	}
	it.Last = kk
	st.Iters[ix.ID] = it
	if st.Disc != nil {
		st.Disc.Iters[ix.ID] = true
	}
	return Val{Elems: []Val{scalar(okT), kv, vv}}
}

// ---- channels and goroutines: abstracted ----

func (e *Engine) chanSend(st *State, x *ssa.Send) {
	ch := e.get(st, x.Chan)
	e.Assumed["channel send abstracted: no blocking, no receiver modelled"] = true
	// count sends per channel in a ghost counter
	key := "sends"
	tb := e.tb
	cur, ok := st.Ghost[key]
	if !ok {
		cur = tb.Const("G0!sends", SArrI)
	}
	st.Ghost[key] = tb.Store(cur, ch.T[0], tb.Add(tb.Select(cur, ch.T[0]), tb.Int(1)))
	if st.Disc != nil {
		st.Disc.Ghosts[key] = true
	}
}

func (e *Engine) chanRecv(st *State, x *ssa.UnOp, ch Val) Val {
	e.Assumed["channel receive abstracted: received value is arbitrary"] = true
	ct := x.X.Type().Underlying().(*types.Chan)
	v := e.freshVal(st, ct.Elem(), "recv")
	// ghost counters since function entry: number of receives, and number of received interface values (errors) that were non-nil
	tb := e.tb
	rc, ok := st.Ghost["recvcount"]
	if !ok {
		rc = tb.Const("G0!recvcount", SInt)
	}
	e.setGhost(st, "recvcount", tb.Add(rc, tb.Int(1)))
	if _, isI := ct.Elem().Underlying().(*types.Interface); isI && len(v.T) == 2 {
		rn, ok := st.Ghost["recvnonnil"]
		if !ok {
			rn = tb.Const("G0!recvnonnil", SInt)
		}
		e.setGhost(st, "recvnonnil", tb.Add(rn, tb.Ite(tb.Neq(v.ifTag(), tb.Int(0)), tb.Int(1), tb.Int(0))))
	}
	if x.CommaOk {
		return Val{Elems: []Val{v, scalar(e.tb.Fresh("recv_ok", SBool))}}
	}
	return v
}

func (e *Engine) selectOp(st *State, x *ssa.Select) Val {
	tb := e.tb
	e.Assumed["select abstracted: any ready case may be chosen, received values arbitrary"] = true
	idx := tb.Fresh("sel_idx", SInt)
	lo := int64(0)
	if !x.Blocking {
		lo = -1
	}
	e.assume(st, tb.And(tb.Le(tb.Int(lo), idx), tb.Lt(idx, tb.Int(int64(len(x.States))))))
	out := Val{Elems: []Val{scalar(idx), scalar(tb.Fresh("sel_ok", SBool))}}
	for _, s := range x.States {
		if s.Dir == types.RecvOnly {
			ct := s.Chan.Type().Underlying().(*types.Chan)
			out.Elems = append(out.Elems, e.freshVal(st, ct.Elem(), "sel_recv"))
		}
	}
	return out
}

// doGo: the spawned call is checked at the spawn point (callee precondition, or the callee's body when it has no
// contract) on a copy of the state; its effects on the spawning function's state are not modelled.
func (e *Engine) doGo(st *State, x *ssa.Go) {
	e.Assumed["go statement: the spawned call is checked at the spawn point (precondition / body), its effects on the spawner are not modelled (no interleavings)"] = true
	c := x.Common()
	var args []Val
	for _, a := range c.Args {
		args = append(args, e.get(st, a))
	}
	var fv Val
	if _, isB := c.Value.(*ssa.Builtin); !isB {
		fv = e.get(st, c.Value)
	}
	st2 := st.clone()
	e.branch(func() {
		e.callValue(st2, c, fv, args, x.Pos(), func(*State, Val) {})
	})
}
