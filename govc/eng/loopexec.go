package eng

import (
	"fmt"
	"go/token"
	"go/types"
	"math/big"
	"sort"

	"golang.org/x/tools/go/ssa"
)

func (e *Engine) loopSpecFor(fr *Frame, li *loopInfo) *LoopSpec {
	// the function under verification may supply invariants for the loops of callees inlined into it
	if e.cur != nil && e.cur.Contract != nil && e.cur.Contract.InlinedLoops != nil && fr.Fn != nil && fr.Fn != e.cur.Fn {
		if ls, ok := e.cur.Contract.InlinedLoops[fmt.Sprintf("%s.%d", FuncKey(fr.Fn), li.Ord)]; ok {
			return ls
		}
	}
	if fr.Contract == nil {
		return nil
	}
	return fr.Contract.Loops[li.Ord]
}

type writeSet struct {
	Cells   map[int]bool
	Fresh   map[string]bool
	Classes map[string]bool
	Iters   map[int]bool
	Ghosts  map[string]bool
}

func newWriteSet() *writeSet {
	return &writeSet{Cells: map[int]bool{}, Fresh: map[string]bool{}, Classes: map[string]bool{}, Iters: map[int]bool{}, Ghosts: map[string]bool{}}
}

func (w *writeSet) absorb(d *Discovery) bool {
	ch := false
	for k := range d.Cells {
		if !w.Cells[k] {
			w.Cells[k] = true
			ch = true
		}
	}
	for k := range d.Classes {
		if !w.Classes[k] {
			w.Classes[k] = true
			ch = true
		}
	}
	for k := range d.FreshClasses {
		if !w.Fresh[k] {
			w.Fresh[k] = true
			ch = true
		}
	}
	for k := range d.Iters {
		if !w.Iters[k] {
			w.Iters[k] = true
			ch = true
		}
	}
	for k := range d.Ghosts {
		if !w.Ghosts[k] {
			w.Ghosts[k] = true
			ch = true
		}
	}
	return ch
}

// loopEnter handles the first arrival at a loop header on a path. It returns
// true when it has taken over execution of the path.
func (e *Engine) loopEnter(st *State, li *loopInfo, b *ssa.BasicBlock, prev *ssa.BasicBlock, ret Kont) bool {
	fr := st.top()
	spec := e.loopSpecFor(fr, li)
	ctx := &LoopCtx{Spec: spec, Ord: li.Ord, Info: li}
	if spec == nil {
		// a range loop over a slice of concrete constant length (variadic argument lists, literals) is executed exactly
		if n, ok := e.constRangeLen(st, li); ok && n <= 64 {
			spec = &LoopSpec{N: li.Ord, Unroll: int(n) + 1}
			ctx.Spec = spec
		}
	}
	if spec != nil && spec.Unroll > 0 {
		ctx.Unrolled = 1
		fr.Active[b] = ctx
		return false
	}
	// 1. discover the write set (fixpoint)
	W := newWriteSet()
	depth := len(st.Frames)
	// cells that exist at loop entry (only those need havoc)
	for iter := 0; ; iter++ {
		if iter > 8 {
			panic(e.unsupported("loop write-set discovery did not converge"))
		}
		s := st.clone()
		outer := s.Disc
		s.Disc = &Discovery{Depth: depth, Loop: li, Cells: map[int]bool{}, Classes: map[string]bool{}, FreshClasses: map[string]bool{}, FreshBases: map[int]*big.Int{}, Iters: map[int]bool{}, Ghosts: map[string]bool{}}
		d := s.Disc
		e.logOff++
		func() {
			defer func() { e.logOff-- }()
			defer func() {
				if r := recover(); r != nil {
					switch r.(type) {
					case unsupportedErr, pathAbort:
						// reported again by the real pass
					default:
						panic(r)
					}
				}
			}()
			c2 := &LoopCtx{Spec: spec, Ord: li.Ord, Info: li, EntryHeap: snapshot(s.Heap), EntryAlloc: s.Alloc}
			e.havocForLoop(s, W, c2, li)
			d.Cells, d.Classes, d.FreshClasses, d.Iters, d.Ghosts = map[int]bool{}, map[string]bool{}, map[string]bool{}, map[int]bool{}, map[string]bool{}
			e.applyRecords(s, c2)
			e.assumeInvariants(s, li, c2, true)
			s.top().Active[b] = c2
			e.runInstrs(s, b, 0, prev, func(*State, Val) {})
		}()
		_ = outer
		// only cells that existed before the loop matter
		for c := range d.Cells {
			if _, existed := st.Cells[c]; !existed {
				delete(d.Cells, c)
			}
		}
		for it := range d.Iters {
			if _, existed := st.Iters[it]; !existed {
				delete(d.Iters, it)
			}
		}
		if !W.absorb(d) {
			break
		}
	}
	// 2. invariant holds on entry
	ctx.EntryHeap = snapshot(st.Heap)
	ctx.EntryAlloc = st.Alloc
	e.applyRecords(st, ctx)
	e.checkInvariants(st, li, ctx, "inv.init", b)
	// 3. havoc and assume
	e.havocForLoop(st, W, ctx, li)
	e.applyRecords(st, ctx)
	e.assumeInvariants(st, li, ctx, false)
	wall := map[string]bool{}
	for k := range W.Classes {
		wall[k] = true
	}
	for k := range W.Fresh {
		wall[k] = true
	}
	ctx.Written = sortedKeys(wall)
	fr.Active[b] = ctx
	return false
}

// applyRecords stores the current value of every recorded expression at index $i of its ghost array.
func (e *Engine) applyRecords(st *State, ctx *LoopCtx) {
	if ctx.Spec == nil || len(ctx.Spec.Records) == 0 {
		return
	}
	sc := e.loopSpecCtx(st, ctx)
	iv, _ := sc.ident("$i")
	for _, r := range ctx.Spec.Records {
		v := e.evalClauseVal(sc, r.E)
		cur := e.ghostArr(st, "rec:"+r.Name, SArrI)
		e.setGhost(st, "rec:"+r.Name, e.tb.Store(cur, iv.T[0], v))
	}
}

// havocForLoop forgets everything the loop body may write.
func (e *Engine) havocForLoop(st *State, W *writeSet, ctx *LoopCtx, li *loopInfo) {
	tb := e.tb
	var cells []int
	for c := range W.Cells {
		cells = append(cells, c)
	}
	sort.Ints(cells)
	for _, c := range cells {
		cc, ok := st.Cells[c]
		if !ok {
			continue
		}
		if cc.Spill != nil {
			continue // contents live in the heap; class havoc covers it
		}
		if cc.V.Elems != nil {
			// local array: havoc each element
			at := cc.Typ.Underlying().(*types.Array)
			els := make([]Val, len(cc.V.Elems))
			for i := range els {
				els[i] = e.freshVal(st, at.Elem(), fmt.Sprintf("lc%d_%d", c, i))
			}
			cc.V = Val{Elems: els}
		} else {
			cc.V = e.freshVal(st, cc.Typ, fmt.Sprintf("lc%d", c))
		}
		st.Cells[c] = cc
		if st.Disc != nil {
			st.Disc.Cells[c] = true
		}
	}
	// heap classes
	var locs []Loc
	hasMod := ctx.Spec != nil && ctx.Spec.HasMod && !ctx.Spec.ModAny
	if hasMod {
		sc := e.loopSpecCtx(st, ctx)
		sc.heap = ctx.EntryHeap
		for _, m := range ctx.Spec.Modifies {
			locs = append(locs, e.evalLocsClause(sc, m)...)
		}
	}
	all := map[string]bool{}
	for k := range W.Classes {
		all[k] = true
	}
	for k := range W.Fresh {
		all[k] = true
	}
	for _, cl := range sortedKeys(all) {
		s, known := e.classSorts[cl]
		if !known {
			continue
		}
		if s == SInt || s == SBool {
			// a scalar global: kept under an explicit modifies clause (which cannot name it), arbitrary otherwise
			if hasMod {
				st.Heap[cl] = e.heapIn(ctx.EntryHeap, cl)
			} else {
				e.setH(st, cl, tb.Fresh("lh_"+cl, s))
			}
			continue
		}
		if !W.Classes[cl] && !hasMod {
			// written only at objects allocated inside the body: objects existing at loop entry keep their contents
			h := e.heapIn(ctx.EntryHeap, cl)
			nh := tb.Fresh("lh_"+cl, s)
			bv := tb.BoundVar("r", SInt)
			e.assumeQuiet(st, tb.Forall([]*Term{bv}, tb.Implies(tb.Lt(bv, ctx.EntryAlloc), tb.Eq(tb.Select(nh, bv), tb.Select(h, bv))), []*Term{tb.Select(nh, bv)}))
			st.Heap[cl] = nh
			st.Written[cl] = true
			if st.Disc != nil {
				st.Disc.FreshClasses[cl] = true
			}
			continue
		}
		if hasMod {
			// start again from the entry heap, then havoc only the listed locations of this class
			var mine []Loc
			for _, l := range locs {
				if l.Class == cl {
					mine = append(mine, l)
				}
			}
			h := e.heapIn(ctx.EntryHeap, cl)
			// objects allocated inside the loop body are fresh each iteration: unconstrained beyond entry alloc
			st.Heap[cl] = h
			st.Written[cl] = true
			if st.Disc != nil {
				st.Disc.Classes[cl] = true
			}
			e.havocLocs(st, mine)
			// fresh part: values at refs >= entry alloc are arbitrary
			nh := tb.Fresh("lh_"+cl, s)
			bv := tb.BoundVar("r", SInt)
			e.assumeQuiet(st, tb.Forall([]*Term{bv}, tb.Implies(tb.Lt(bv, e.loopFreshBound(ctx)), tb.Eq(tb.Select(nh, bv), tb.Select(st.Heap[cl], bv))), []*Term{tb.Select(nh, bv)}))
			st.Heap[cl] = nh
			continue
		}
		e.setH(st, cl, tb.Fresh("lh_"+cl, s))
	}
	// references stored anywhere in the (havocked) heap denote allocated objects: global well-formedness,
	// restated for the new heap terms because spec-level reads do not add it pointwise
	e.pendingWF = nil
	for _, cl := range sortedKeys(all) {
		k, ok := e.classKinds[cl]
		if ok && (k == LKInt || k == LKSlLen || k == LKSlCap || k == LKSlOff) {
			if ax := e.rangeAxiom(cl, st.Heap[cl]); ax != nil {
				e.assumeQuiet(st, ax)
			}
			continue
		}
		if !ok || (k != LKRef && k != LKSlArr) {
			continue
		}
		e.pendingWF = append(e.pendingWF, cl)
	}
	for it := range W.Iters {
		is, ok := st.Iters[it]
		if !ok {
			continue
		}
		is.Visited = tb.Fresh("visited", SArrB)
		if is.Count != nil {
			is.Count = tb.Fresh("itercount", SInt)
			e.assumeQuiet(st, tb.Le(tb.Int(0), is.Count))
		}
		st.Iters[it] = is
		if st.Disc != nil {
			st.Disc.Iters[it] = true
		}
	}
	for _, g := range sortedKeys(W.Ghosts) {
		old, ok := st.Ghost[g]
		srt := SInt
		if ok {
			srt = old.Sort
		} else if gs, known := ghostSorts[g]; known {
			srt = gs
		}
		st.Ghost[g] = tb.Fresh("lg_"+g, srt)
		if st.Disc != nil {
			st.Disc.Ghosts[g] = true
		}
	}
	// allocation counter may have advanced
	if len(W.Classes) > 0 || true {
		na := tb.Fresh("alloc", SInt)
		e.assumeQuiet(st, tb.Ge(na, st.Alloc))
		st.Alloc = na
		st.noteAlloc()
	}
	for _, cl := range e.pendingWF {
		h := st.Heap[cl]
		r := tb.BoundVar("r", SInt)
		switch h.Sort {
		case SArrI:
			v := tb.Select(h, r)
			e.assumeQuiet(st, tb.Forall([]*Term{r}, tb.And(tb.Le(tb.Int(0), v), tb.Lt(v, st.Alloc)), []*Term{v}))
		case SArr2I:
			i := tb.BoundVar("i", SInt)
			v := tb.Select(tb.Select(h, r), i)
			e.assumeQuiet(st, tb.Forall([]*Term{r, i}, tb.And(tb.Le(tb.Int(0), v), tb.Lt(v, st.Alloc)), []*Term{v}))
		}
	}
	e.pendingWF = nil
}

// isInlinedLoopOverride: the loop's spec comes from the contract of the function under verification ("loop callee.N").
func (e *Engine) isInlinedLoopOverride(fr *Frame, ctx *LoopCtx) bool {
	if e.cur == nil || e.cur.Contract == nil || e.cur.Contract.InlinedLoops == nil || ctx.Spec == nil {
		return false
	}
	for _, ls := range e.cur.Contract.InlinedLoops {
		if ls == ctx.Spec {
			return true
		}
	}
	return false
}

// loopFreshBound: references at or beyond it count as fresh for the loop's frame ("modifies fresh": since function entry).
func (e *Engine) loopFreshBound(ctx *LoopCtx) *Term {
	if ctx.Spec != nil && ctx.Spec.ModFresh && e.entryAlloc != nil {
		return e.entryAlloc
	}
	return ctx.EntryAlloc
}

func (e *Engine) loopSpecCtx(st *State, ctx *LoopCtx) *specCtx {
	fr := st.top()
	// parameters by name (entry values) from the verified/inlined function's frame
	env := map[string]specBind{}
	sig := fr.Fn.Signature
	names, typs := sigParams(sig, nil)
	for i := range names {
		if i < len(fr.Params) {
			env[names[i]] = specBind{fr.Params[i], typs[i]}
		}
	}
	if len(names) <= len(fr.Params) {
		addPositional(env, names, sig, "arg")
	}
	// captured variables of a closure (references to the variables), as in its contract
	for _, fv := range fr.Fn.FreeVars {
		if v, ok := fr.Regs[fv]; ok {
			if _, shadowed := env[fv.Name()]; !shadowed {
				env[fv.Name()] = specBind{v, fv.Type()}
			}
		}
	}
	if len(st.Frames) > 1 && e.isInlinedLoopOverride(fr, ctx) {
		// invariants the function under verification supplies for a loop of an inlined callee may also name its own parameters
		// (entry values), as far as the callee's parameter names do not shadow them
		top := st.Frames[0]
		tn, tt := sigParams(top.Fn.Signature, nil)
		for i := range tn {
			if _, shadowed := env[tn[i]]; !shadowed && i < len(top.Params) {
				env[tn[i]] = specBind{top.Params[i], tt[i]}
			}
		}
	}
	pkg := fr.Fn.Pkg
	var tp *types.Package
	if fr.Contract != nil {
		tp = e.specPkg(fr.Contract)
	} else if pkg != nil {
		tp = pkg.Pkg
	}
	oldHeap := ctx.EntryHeap
	oldAlloc := ctx.EntryAlloc
	if fr.EntryAlloc != nil {
		// old(...) and fresh(...) in a loop invariant refer to the entry of the function that contains the loop
		oldHeap = fr.EntryHeap
		oldAlloc = fr.EntryAlloc
	}
	if e.cur != nil && (len(st.Frames) == 1 || e.isInlinedLoopOverride(fr, ctx)) {
		oldHeap = e.entryHeap
		oldAlloc = e.entryAlloc
	}
	return &specCtx{e: e, st: st, heap: st.Heap, oldHeap: oldHeap, oldAlloc: oldAlloc, env: env, pkg: tp, frame: fr, loopCtx: ctx}
}

// autoInvariants returns the automatically derived invariants of a loop.
func (e *Engine) autoInvariants(st *State, li *loopInfo, ctx *LoopCtx) []*Term {
	tb := e.tb
	var out []*Term
	fr := st.top()
	// rangeindex loops: -1 <= ri < len  (len is the right operand of the header comparison)
	if li.Header.Comment == "rangeindex.loop" {
		var lenV ssa.Value
		var riAlloc *ssa.Alloc
		for _, in := range li.Header.Instrs {
			if bo, ok := in.(*ssa.BinOp); ok && bo.Op == token.LSS {
				lenV = bo.Y
			}
			if ld, ok := in.(*ssa.UnOp); ok && ld.Op == token.MUL {
				if al, ok := ld.X.(*ssa.Alloc); ok && al.Comment == "rangeindex" {
					riAlloc = al
				}
			}
		}
		if lenV != nil && riAlloc != nil {
			if id, ok := fr.Cells[riAlloc]; ok {
				if lv, ok := e.tryGet(st, lenV); ok {
					ri := st.Cells[id].V.T[0]
					out = append(out, tb.And(tb.Le(tb.Int(-1), ri), tb.Lt(ri, tb.Ite(tb.Gt(lv.T[0], tb.Int(0)), lv.T[0], tb.Int(0)))))
				}
			}
		}
	}
	// range-over-int loops: 0 <= iter < n (n is the right operand of the latch comparison iter+1 < n)
	if li.Header.Comment == "rangeint.body" {
		var itAlloc *ssa.Alloc
		for _, in := range li.Header.Instrs {
			if ld, ok := in.(*ssa.UnOp); ok && ld.Op == token.MUL {
				if al, ok := ld.X.(*ssa.Alloc); ok && al.Comment == "rangeint.iter" {
					itAlloc = al
				}
			}
		}
		var nV ssa.Value
		for b := range li.Blocks {
			for _, in := range b.Instrs {
				if bo, ok := in.(*ssa.BinOp); ok && bo.Op == token.LSS {
					if add, ok := bo.X.(*ssa.BinOp); ok && add.Op == token.ADD {
						if ld, ok := add.X.(*ssa.UnOp); ok && ld.X == ssa.Value(itAlloc) {
							nV = bo.Y
						}
					}
				}
			}
		}
		if itAlloc != nil && nV != nil {
			if id, ok := fr.Cells[itAlloc]; ok {
				if nv, ok := e.tryGet(st, nV); ok {
					it := st.Cells[id].V.T[0]
					out = append(out, tb.And(tb.Le(tb.Int(0), it), tb.Lt(it, nv.T[0])))
				}
			}
		}
	}
	// map iterators: visited keys are in the domain
	var ids []int
	for id := range st.Iters {
		ids = append(ids, id)
	}
	sort.Ints(ids)
	for _, id := range ids {
		it := st.Iters[id]
		bv := tb.BoundVar("k", SInt)
		out = append(out, tb.Forall([]*Term{bv}, tb.Implies(tb.Select(it.Visited, bv), tb.Select(it.Dom, bv)), []*Term{tb.Select(it.Visited, bv)}))
	}
	return out
}

func (e *Engine) tryGet(st *State, v ssa.Value) (val Val, ok bool) {
	defer func() {
		if r := recover(); r != nil {
			ok = false
		}
	}()
	return e.get(st, v), true
}

func (e *Engine) assumeInvariants(st *State, li *loopInfo, ctx *LoopCtx, quiet bool) {
	for _, t := range e.autoInvariants(st, li, ctx) {
		e.assume(st, t)
	}
	if ctx.Spec == nil {
		return
	}
	sc := e.loopSpecCtx(st, ctx)
	for _, inv := range ctx.Spec.Invariants {
		e.assume(st, e.evalClause(sc, inv))
	}
}

func (e *Engine) checkInvariants(st *State, li *loopInfo, ctx *LoopCtx, kind string, b *ssa.BasicBlock) {
	pos := li.Pos
	for i, t := range e.autoInvariants(st, li, ctx) {
		e.oblige(st, kind, fmt.Sprintf("loop%d.auto%d", li.Ord, i+1), pos, t, "automatic loop invariant")
	}
	if ctx.Spec == nil {
		return
	}
	sc := e.loopSpecCtx(st, ctx)
	// index just processed (range loops): $i - 1
	var last *Term
	if kind == "inv.preserve" {
		func() {
			defer func() { recover() }()
			v, _ := sc.ident("$i")
			last = e.tb.Sub(v.T[0], e.tb.Int(1))
		}()
	}
	for i, inv := range ctx.Spec.Invariants {
		name := fmt.Sprintf("loop%d.%d", li.Ord, i+1)
		if inv.Name != "" {
			name = fmt.Sprintf("loop%d.%s", li.Ord, inv.Name)
		}
		if q, ok := inv.E.(*SQuant); ok && q.Forall && last != nil && len(q.Pats) == 0 {
			// preservation of "forall k < $i: P(k)": the element just completed and the earlier ones are separate obligations;
			// for the earlier ones k differs from the index written in this iteration, so reads over those writes simplify
			c1 := *sc
			c1.splitMode, c1.splitTerm = 1, last
			e.oblige(st, kind, name+"/new", pos, e.evalClause(&c1, inv), "loop invariant (element just processed): "+inv.Src)
			c2 := *sc
			c2.splitMode, c2.splitTerm = 2, last
			e.oblige(st, kind, name+"/kept", pos, e.evalClause(&c2, inv), "loop invariant (earlier elements): "+inv.Src)
			continue
		}
		e.oblige(st, kind, name, pos, e.evalClause(sc, inv), "loop invariant: "+inv.Src)
	}
}

// loopBackEdge handles arrival at an already entered loop header.
func (e *Engine) loopBackEdge(st *State, li *loopInfo, ctx *LoopCtx, b *ssa.BasicBlock, prev *ssa.BasicBlock, ret Kont) bool {
	if ctx.Spec != nil && ctx.Spec.Unroll > 0 {
		ctx2 := *ctx
		ctx2.Unrolled++
		if ctx2.Unrolled > ctx.Spec.Unroll+1 {
			fr := st.top()
			if fr.Contract != nil && fr.Contract.Bounded > 0 || (e.cur != nil && e.cur.Contract != nil && e.cur.Contract.Bounded > 0) {
				if e.cur != nil {
					e.cur.Bounded = true
				}
				e.pathEnd()
				return true
			}
			panic(pathAbort{fmt.Sprintf("outside reach: loop %d of %s needs more than %d unrollings", li.Ord, fr.Fn.Name(), ctx.Spec.Unroll)})
		}
		st.top().Active[b] = &ctx2
		return false
	}
	if st.Disc != nil && st.Disc.Loop == li && st.Disc.Depth == len(st.Frames) {
		return true
	}
	e.applyRecords(st, ctx)
	e.checkInvariants(st, li, ctx, "inv.preserve", b)
	// loop frame
	if ctx.Spec != nil && ctx.Spec.HasMod && !ctx.Spec.ModAny {
		sc := e.loopSpecCtx(st, ctx)
		sc.heap = ctx.EntryHeap
		var locs []Loc
		for _, m := range ctx.Spec.Modifies {
			locs = append(locs, e.evalLocsClause(sc, m)...)
		}
		for _, cl := range ctx.Written {
			g := e.frameGoal(e.heapIn(ctx.EntryHeap, cl), e.H(st, cl, e.classSorts[cl]), cl, locs, e.loopFreshBound(ctx))
			e.oblige(st, "loopframe", fmt.Sprintf("loop%d.%s", li.Ord, cl), li.Pos, g, "loop modifies only the declared locations of "+cl)
		}
	}
	e.pathEnd()
	return true
}

// frameGoal states that between h0 and h1 only the given locations (and objects allocated after a0) changed.
func (e *Engine) frameGoal(h0, h1 *Term, class string, locs []Loc, a0 *Term) *Term {
	tb := e.tb
	if h0 == h1 {
		return tb.True()
	}
	var mine []Loc
	for _, l := range locs {
		if l.Class == class {
			mine = append(mine, l)
		}
	}
	for _, l := range mine {
		if l.All {
			return tb.True()
		}
	}
	r := tb.BoundVar("r", SInt)
	if len(class) > 2 && class[:2] == "G:" {
		// global scalar cell
		if len(mine) > 0 {
			return tb.True()
		}
		return tb.Eq(h0, h1)
	}
	conds := []*Term{tb.Lt(r, a0), tb.Gt(r, tb.Int(0))}
	var rowGoals []*Term
	for _, l := range mine {
		if l.Idx == nil {
			conds = append(conds, tb.Neq(r, l.Ref))
		}
	}
	// rows with element-level patterns
	type rowPat struct {
		ref  *Term
		idxs []*Term
	}
	var rows []*rowPat
	for _, l := range mine {
		if l.Idx == nil {
			continue
		}
		var rp *rowPat
		for _, x := range rows {
			if x.ref == l.Ref {
				rp = x
			}
		}
		if rp == nil {
			rp = &rowPat{ref: l.Ref}
			rows = append(rows, rp)
		}
		rp.idxs = append(rp.idxs, l.Idx)
	}
	for _, rp := range rows {
		conds = append(conds, tb.Neq(r, rp.ref))
		i := tb.BoundVar("i", SInt)
		var ic []*Term
		for _, ix := range rp.idxs {
			ic = append(ic, tb.Neq(i, ix))
		}
		rowGoals = append(rowGoals, tb.Implies(tb.Lt(rp.ref, a0),
			tb.Forall([]*Term{i}, tb.Implies(tb.And(ic...), tb.Eq(tb.Select(tb.Select(h1, rp.ref), i), tb.Select(tb.Select(h0, rp.ref), i))))))
	}
	main := tb.Forall([]*Term{r}, tb.Implies(tb.And(conds...), tb.Eq(tb.Select(h1, r), tb.Select(h0, r))))
	return tb.And(append([]*Term{main}, rowGoals...)...)
}

// constRangeLen reports the constant trip count of a rangeindex loop, if the ranged length is a constant on this path.
func (e *Engine) constRangeLen(st *State, li *loopInfo) (int64, bool) {
	if li.Header.Comment != "rangeindex.loop" {
		return 0, false
	}
	for _, in := range li.Header.Instrs {
		if bo, ok := in.(*ssa.BinOp); ok && bo.Op == token.LSS {
			if lv, ok := e.tryGet(st, bo.Y); ok && len(lv.T) == 1 {
				return lv.T[0].ConstInt()
			}
		}
	}
	return 0, false
}
