// Package eng is the verification-condition generator: symbolic execution of
// go/ssa (naive form) against contracts, producing SMT-LIB obligations.
package eng

import (
	"fmt"
	"math/big"
	"sort"
	"strings"
)

// Sort of an SMT term.
type Sort int

const (
	SInt   Sort = iota
	SBool       // Bool
	SArrI       // (Array Int Int)
	SArrB       // (Array Int Bool)
	SArr2I      // (Array Int (Array Int Int))
	SArr2B      // (Array Int (Array Int Bool))
)

func (s Sort) String() string {
	switch s {
	case SInt:
		return "Int"
	case SBool:
		return "Bool"
	case SArrI:
		return "(Array Int Int)"
	case SArrB:
		return "(Array Int Bool)"
	case SArr2I:
		return "(Array Int (Array Int Int))"
	case SArr2B:
		return "(Array Int (Array Int Bool))"
	}
	return "?"
}

// ElemSort is the sort obtained by one select.
func (s Sort) ElemSort() Sort {
	switch s {
	case SArrI:
		return SInt
	case SArrB:
		return SBool
	case SArr2I:
		return SArrI
	case SArr2B:
		return SArrB
	}
	panic("ElemSort of non-array " + s.String())
}

// ArrOf returns the array sort with the given element sort.
func ArrOf(e Sort) Sort {
	switch e {
	case SInt:
		return SArrI
	case SBool:
		return SArrB
	case SArrI:
		return SArr2I
	case SArrB:
		return SArr2B
	}
	panic("ArrOf " + e.String())
}

// Term is a hash-consed SMT term.
type Term struct {
	Op    string // "const" (declared symbol), "int", "true", "false", "bound", "app" (UF application), or an SMT operator
	Name  string // for const/bound/app
	Int   *big.Int
	Args  []*Term
	Sort  Sort
	ID    int
	Bound bool // contains a bound variable
	// quantifier data (Op == "forall"/"exists"): Vars are bound terms, Args[0] body, Pats triggers
	Vars []*Term
	Pats [][]*Term
}

// TB is a term bank (hash-consing table plus declarations).
type TB struct {
	SumDefs map[string]*SumDef // summand arrays (see SumArr)
	UsesIdx bool
	// Distinct holds pairs of terms known to be different while a spec is evaluated under a case split
	// (key: smaller ID, larger ID); consulted by Eq so that reads over writes at the other index simplify.
	Distinct map[[2]int]bool
	tab    map[string]*Term
	nextID int
	Decls  map[string]*Decl // declared constants and functions
	fresh  map[string]int
}

// Decl is a declared symbol.
type Decl struct {
	Name string
	Args []Sort
	Ret  Sort
	ID   int
}

func NewTB() *TB {
	return &TB{tab: map[string]*Term{}, Decls: map[string]*Decl{}, fresh: map[string]int{}}
}

func (tb *TB) intern(t *Term) *Term {
	var sb strings.Builder
	sb.WriteString(t.Op)
	sb.WriteByte('|')
	sb.WriteString(t.Name)
	if t.Int != nil {
		sb.WriteString(t.Int.String())
	}
	fmt.Fprintf(&sb, "|%d", t.Sort)
	for _, a := range t.Args {
		fmt.Fprintf(&sb, ",%d", a.ID)
	}
	for _, v := range t.Vars {
		fmt.Fprintf(&sb, ";%d", v.ID)
	}
	for _, p := range t.Pats {
		sb.WriteString("/")
		for _, x := range p {
			fmt.Fprintf(&sb, "p%d", x.ID)
		}
	}
	k := sb.String()
	if o, ok := tb.tab[k]; ok {
		return o
	}
	tb.nextID++
	t.ID = tb.nextID
	for _, a := range t.Args {
		if a.Bound {
			t.Bound = true
		}
	}
	if t.Op == "bound" {
		t.Bound = true
	}
	tb.tab[k] = t
	return t
}

// ---- constructors ----

func (tb *TB) Int(v int64) *Term { return tb.BigInt(big.NewInt(v)) }
func (tb *TB) BigInt(v *big.Int) *Term {
	return tb.intern(&Term{Op: "int", Int: new(big.Int).Set(v), Sort: SInt})
}
func (tb *TB) True() *Term  { return tb.intern(&Term{Op: "true", Sort: SBool}) }
func (tb *TB) False() *Term { return tb.intern(&Term{Op: "false", Sort: SBool}) }
func (tb *TB) Bool(b bool) *Term {
	if b {
		return tb.True()
	}
	return tb.False()
}

// SanitizeName makes a string usable as file name / SMT symbol.
func SanitizeName(s string) string { return sanitize(s) }

func sanitize(s string) string {
	var sb strings.Builder
	for _, r := range s {
		switch {
		case r >= 'a' && r <= 'z', r >= 'A' && r <= 'Z', r >= '0' && r <= '9', r == '_', r == '.', r == '$', r == '!':
			sb.WriteRune(r)
		default:
			sb.WriteByte('_')
		}
	}
	return sb.String()
}

// Const returns the declared constant with this exact name (declaring it if needed).
func (tb *TB) Const(name string, s Sort) *Term {
	name = sanitize(name)
	if d, ok := tb.Decls[name]; ok {
		if d.Ret != s || len(d.Args) != 0 {
			panic("redeclared " + name)
		}
	} else {
		tb.Decls[name] = &Decl{Name: name, Ret: s, ID: len(tb.Decls)}
	}
	return tb.intern(&Term{Op: "const", Name: name, Sort: s})
}

// SumDef is the definition of a summand array: Arr[k] = Body(k) for all k.
type SumDef struct {
	Arr  *Term
	Var  *Term
	Body *Term
	Free []*Term // enclosing bound variables the summand depends on
}

// SumVar is the canonical bound variable of summation bodies at nesting depth d (canonical so that equal summands
// written twice yield the same term and hence the same summand array).
func (tb *TB) SumVar(d int) *Term {
	return tb.intern(&Term{Op: "bound", Name: fmt.Sprintf("k!sum%d", d), Sort: SInt})
}

// FreeBound lists the bound variables occurring in t (in order of creation), except those in skip.
func (tb *TB) FreeBound(t *Term, skip ...*Term) []*Term {
	sk := map[*Term]bool{}
	for _, x := range skip {
		sk[x] = true
	}
	seen := map[*Term]bool{}
	var out []*Term
	var walk func(x *Term)
	walk = func(x *Term) {
		if x == nil || seen[x] || !x.Bound {
			return
		}
		seen[x] = true
		if x.Op == "bound" {
			if !sk[x] {
				out = append(out, x)
			}
			return
		}
		if x.Op == "forall" || x.Op == "exists" {
			for _, v := range x.Vars {
				sk[v] = true
			}
		}
		for _, a := range x.Args {
			walk(a)
		}
	}
	walk(t)
	sort.Slice(out, func(i, j int) bool { return out[i].ID < out[j].ID })
	return out
}

// SumArr names the array k -> body(k): a constant - or, when the summand mentions variables bound by an enclosing
// quantifier, a function of those variables - defined by the axiom forall (outer vars,) k. arr[k] = body.
func (tb *TB) SumArr(v, body *Term) *Term {
	name := fmt.Sprintf("sumarr!%d", body.ID)
	fvs := tb.FreeBound(body, v)
	var arr *Term
	if len(fvs) == 0 {
		arr = tb.Const(name, SArrI)
	} else {
		arr = tb.App(name, SArrI, fvs...)
	}
	if tb.SumDefs == nil {
		tb.SumDefs = map[string]*SumDef{}
	}
	if _, ok := tb.SumDefs[name]; !ok {
		tb.SumDefs[name] = &SumDef{Arr: arr, Var: v, Body: body, Free: fvs}
	}
	return arr
}

// Psum(arr, n) = arr[0] + ... + arr[n-1] (uninterpreted; unfolding and congruence instances are added per script).
func (tb *TB) Psum(arr, n *Term) *Term {
	return tb.App("psum", SInt, arr, n)
}

// Fresh returns a new constant with a unique name derived from hint.
func (tb *TB) Fresh(hint string, s Sort) *Term {
	hint = sanitize(hint)
	tb.fresh[hint]++
	return tb.Const(fmt.Sprintf("%s!%d", hint, tb.fresh[hint]), s)
}

// BoundVar creates a bound variable term (unique name).
func (tb *TB) BoundVar(hint string, s Sort) *Term {
	hint = sanitize(hint)
	tb.fresh["?"+hint]++
	return tb.intern(&Term{Op: "bound", Name: fmt.Sprintf("%s?%d", hint, tb.fresh["?"+hint]), Sort: s})
}

// App applies an uninterpreted function (declared on first use).
func (tb *TB) App(name string, ret Sort, args ...*Term) *Term {
	name = sanitize(name)
	as := make([]Sort, len(args))
	for i, a := range args {
		as[i] = a.Sort
	}
	if d, ok := tb.Decls[name]; ok {
		if d.Ret != ret || len(d.Args) != len(as) {
			panic(fmt.Sprintf("UF %s redeclared with other signature", name))
		}
		for i := range as {
			if d.Args[i] != as[i] {
				panic(fmt.Sprintf("UF %s arg %d sort mismatch", name, i))
			}
		}
	} else {
		tb.Decls[name] = &Decl{Name: name, Args: as, Ret: ret, ID: len(tb.Decls)}
	}
	if len(args) == 0 {
		return tb.intern(&Term{Op: "const", Name: name, Sort: ret})
	}
	return tb.intern(&Term{Op: "app", Name: name, Args: args, Sort: ret})
}

func (t *Term) IsTrue() bool  { return t.Op == "true" }
func (t *Term) IsFalse() bool { return t.Op == "false" }
func (t *Term) IsInt() bool   { return t.Op == "int" }

// ConstInt returns the value if the term is an integer literal fitting int64.
func (t *Term) ConstInt() (int64, bool) {
	if t.Op == "int" && t.Int.IsInt64() {
		return t.Int.Int64(), true
	}
	return 0, false
}

func (tb *TB) Not(a *Term) *Term {
	mustSort(a, SBool)
	switch a.Op {
	case "true":
		return tb.False()
	case "false":
		return tb.True()
	case "not":
		return a.Args[0]
	}
	return tb.intern(&Term{Op: "not", Args: []*Term{a}, Sort: SBool})
}

func mustSort(a *Term, s Sort) {
	if a.Sort != s {
		panic(fmt.Sprintf("sort mismatch: %s has sort %s, want %s", a.String(), a.Sort, s))
	}
}

func (tb *TB) And(as ...*Term) *Term {
	var out []*Term
	seen := map[int]bool{}
	for _, a := range as {
		mustSort(a, SBool)
		if a.IsTrue() {
			continue
		}
		if a.IsFalse() {
			return a
		}
		if a.Op == "and" {
			for _, x := range a.Args {
				if !seen[x.ID] {
					seen[x.ID] = true
					out = append(out, x)
				}
			}
			continue
		}
		if !seen[a.ID] {
			seen[a.ID] = true
			out = append(out, a)
		}
	}
	for _, a := range out {
		if a.Op == "not" && seen[a.Args[0].ID] {
			return tb.False()
		}
	}
	if len(out) == 0 {
		return tb.True()
	}
	if len(out) == 1 {
		return out[0]
	}
	return tb.intern(&Term{Op: "and", Args: out, Sort: SBool})
}

func (tb *TB) Or(as ...*Term) *Term {
	var out []*Term
	seen := map[int]bool{}
	for _, a := range as {
		mustSort(a, SBool)
		if a.IsFalse() {
			continue
		}
		if a.IsTrue() {
			return a
		}
		if a.Op == "or" {
			for _, x := range a.Args {
				if !seen[x.ID] {
					seen[x.ID] = true
					out = append(out, x)
				}
			}
			continue
		}
		if !seen[a.ID] {
			seen[a.ID] = true
			out = append(out, a)
		}
	}
	for _, a := range out {
		if a.Op == "not" && seen[a.Args[0].ID] {
			return tb.True()
		}
	}
	if len(out) == 0 {
		return tb.False()
	}
	if len(out) == 1 {
		return out[0]
	}
	return tb.intern(&Term{Op: "or", Args: out, Sort: SBool})
}

func (tb *TB) Implies(a, b *Term) *Term {
	if a.IsTrue() {
		return b
	}
	if a.IsFalse() || b.IsTrue() {
		return tb.True()
	}
	if b.IsFalse() {
		return tb.Not(a)
	}
	// (=> a (=> b c))  ==  (=> (and a b) c)
	if b.Op == "=>" {
		return tb.Implies(tb.And(a, b.Args[0]), b.Args[1])
	}
	return tb.intern(&Term{Op: "=>", Args: []*Term{a, b}, Sort: SBool})
}

func (tb *TB) Iff(a, b *Term) *Term { return tb.Eq(a, b) }

func (tb *TB) Eq(a, b *Term) *Term {
	if a.Sort != b.Sort {
		panic(fmt.Sprintf("Eq sort mismatch: %s : %s vs %s : %s", a, a.Sort, b, b.Sort))
	}
	if a == b {
		return tb.True()
	}
	if a.Op == "int" && b.Op == "int" {
		return tb.Bool(a.Int.Cmp(b.Int) == 0)
	}
	if a.Op == "app" && b.Op == "app" && a.Name == "idx" && b.Name == "idx" && a.Args[0] == b.Args[0] {
		return tb.Eq(a.Args[1], b.Args[1])
	}
	if len(tb.Distinct) > 0 && a.Sort == SInt {
		x, y := a, b
		// (+ c x) vs (+ c y): compare x and y
		for x.Op == "+" && y.Op == "+" && len(x.Args) == 2 && len(y.Args) == 2 && x.Args[0] == y.Args[0] {
			x, y = x.Args[1], y.Args[1]
		}
		k := [2]int{x.ID, y.ID}
		if k[0] > k[1] {
			k[0], k[1] = k[1], k[0]
		}
		if tb.Distinct[k] {
			return tb.False()
		}
	}
	if a.Sort == SBool {
		if a.IsTrue() {
			return b
		}
		if b.IsTrue() {
			return a
		}
		if a.IsFalse() {
			return tb.Not(b)
		}
		if b.IsFalse() {
			return tb.Not(a)
		}
	}
	// (= (ite c x y) k) with literals: push the comparison inside
	if a.Sort == SInt {
		for _, p := range [][2]*Term{{a, b}, {b, a}} {
			it, k := p[0], p[1]
			if it.Op == "ite" && k.Op == "int" && (it.Args[1].Op == "int" || it.Args[2].Op == "int") {
				return tb.Ite(it.Args[0], tb.Eq(it.Args[1], k), tb.Eq(it.Args[2], k))
			}
		}
	}
	// base+k vs base+j
	if a.Sort == SInt {
		ba, ka := splitOffset(a)
		bb, kb := splitOffset(b)
		if ba == bb && ba != nil {
			return tb.Bool(ka.Cmp(kb) == 0)
		}
	}
	if a.ID > b.ID {
		a, b = b, a
	}
	return tb.intern(&Term{Op: "=", Args: []*Term{a, b}, Sort: SBool})
}

func (tb *TB) Neq(a, b *Term) *Term { return tb.Not(tb.Eq(a, b)) }

// Neq2 builds (not (= a b)) without consulting the Distinct hints.
func (tb *TB) Neq2(a, b *Term) *Term {
	saved := tb.Distinct
	tb.Distinct = nil
	defer func() { tb.Distinct = saved }()
	return tb.Not(tb.Eq(a, b))
}

// splitOffset decomposes t into base + k when t is (+ base k) with literal k.
func splitOffset(t *Term) (*Term, *big.Int) {
	if t.Op == "+" && len(t.Args) == 2 && t.Args[1].Op == "int" {
		return t.Args[0], t.Args[1].Int
	}
	if t.Op == "int" {
		return nil, t.Int
	}
	return t, big.NewInt(0)
}

func (tb *TB) Ite(c, a, b *Term) *Term {
	mustSort(c, SBool)
	if a.Sort != b.Sort {
		panic("Ite sort mismatch")
	}
	if c.IsTrue() {
		return a
	}
	if c.IsFalse() {
		return b
	}
	if a == b {
		return a
	}
	if a.Sort == SBool {
		if a.IsTrue() && b.IsFalse() {
			return c
		}
		if a.IsFalse() && b.IsTrue() {
			return tb.Not(c)
		}
		if a.IsTrue() {
			return tb.Or(c, b)
		}
		if a.IsFalse() {
			return tb.And(tb.Not(c), b)
		}
		if b.IsTrue() {
			return tb.Or(tb.Not(c), a)
		}
		if b.IsFalse() {
			return tb.And(c, a)
		}
	}
	return tb.intern(&Term{Op: "ite", Args: []*Term{c, a, b}, Sort: a.Sort})
}

func (tb *TB) Add(a, b *Term) *Term {
	mustSort(a, SInt)
	mustSort(b, SInt)
	if a.Op == "int" && b.Op == "int" {
		return tb.BigInt(new(big.Int).Add(a.Int, b.Int))
	}
	if a.Op == "int" {
		a, b = b, a
	}
	if b.Op == "int" {
		if b.Int.Sign() == 0 {
			return a
		}
		if a.Op == "+" && len(a.Args) == 2 && a.Args[1].Op == "int" {
			return tb.Add(a.Args[0], tb.BigInt(new(big.Int).Add(a.Args[1].Int, b.Int)))
		}
	}
	return tb.intern(&Term{Op: "+", Args: []*Term{a, b}, Sort: SInt})
}

func (tb *TB) Sub(a, b *Term) *Term {
	mustSort(a, SInt)
	mustSort(b, SInt)
	if b.Op == "int" {
		return tb.Add(a, tb.BigInt(new(big.Int).Neg(b.Int)))
	}
	if a == b {
		return tb.Int(0)
	}
	ba, ka := splitOffset(a)
	bb, kb := splitOffset(b)
	if ba == bb && ba != nil {
		return tb.BigInt(new(big.Int).Sub(ka, kb))
	}
	return tb.intern(&Term{Op: "-", Args: []*Term{a, b}, Sort: SInt})
}

func (tb *TB) Neg(a *Term) *Term { return tb.Sub(tb.Int(0), a) }

// Idx is the position off+i of element i of a slice with offset off. When the offset is not a literal the sum is
// wrapped in the uninterpreted function idx (axiom: idx(o,i) = o+i, trigger idx(o,i)) so that quantifier triggers
// over element reads do not contain arithmetic, which E-matching cannot match after the solver normalises sums.
func (tb *TB) Idx(off, i *Term) *Term {
	if off.Op == "int" {
		return tb.Add(off, i)
	}
	tb.UsesIdx = true
	return tb.App("idx", SInt, off, i)
}

func (tb *TB) Mul(a, b *Term) *Term {
	mustSort(a, SInt)
	mustSort(b, SInt)
	if a.Op == "int" && b.Op == "int" {
		return tb.BigInt(new(big.Int).Mul(a.Int, b.Int))
	}
	if a.Op == "int" {
		a, b = b, a
	}
	if b.Op == "int" && b.Int.Cmp(big.NewInt(1)) == 0 {
		return a
	}
	if b.Op == "int" && b.Int.Sign() == 0 {
		return b
	}
	return tb.intern(&Term{Op: "*", Args: []*Term{a, b}, Sort: SInt})
}

// Div and Mod are SMT-LIB (floor for positive divisor) division; callers model Go truncation.
func (tb *TB) Div(a, b *Term) *Term {
	if a.Op == "int" && b.Op == "int" && b.Int.Sign() > 0 {
		q := new(big.Int)
		m := new(big.Int)
		q.DivMod(a.Int, b.Int, m)
		return tb.BigInt(q)
	}
	return tb.intern(&Term{Op: "div", Args: []*Term{a, b}, Sort: SInt})
}

func (tb *TB) Mod(a, b *Term) *Term {
	if a.Op == "int" && b.Op == "int" && b.Int.Sign() > 0 {
		return tb.BigInt(new(big.Int).Mod(a.Int, b.Int))
	}
	return tb.intern(&Term{Op: "mod", Args: []*Term{a, b}, Sort: SInt})
}

func (tb *TB) cmp(op string, a, b *Term) *Term {
	mustSort(a, SInt)
	mustSort(b, SInt)
	ba, ka := splitOffset(a)
	bb, kb := splitOffset(b)
	if ba == bb {
		c := ka.Cmp(kb)
		switch op {
		case "<":
			return tb.Bool(c < 0)
		case "<=":
			return tb.Bool(c <= 0)
		}
	}
	return tb.intern(&Term{Op: op, Args: []*Term{a, b}, Sort: SBool})
}

func (tb *TB) Lt(a, b *Term) *Term { return tb.cmp("<", a, b) }
func (tb *TB) Le(a, b *Term) *Term { return tb.cmp("<=", a, b) }
func (tb *TB) Gt(a, b *Term) *Term { return tb.cmp("<", b, a) }
func (tb *TB) Ge(a, b *Term) *Term { return tb.cmp("<=", b, a) }

func (tb *TB) Select(a, i *Term) *Term {
	mustSort(i, SInt)
	// read over write
	for a.Op == "store" {
		e := tb.Eq(a.Args[1], i)
		if e.IsTrue() {
			return a.Args[2]
		}
		if e.IsFalse() {
			a = a.Args[0]
			continue
		}
		break
	}
	if a.Op == "constarr" {
		return a.Args[0]
	}
	return tb.intern(&Term{Op: "select", Args: []*Term{a, i}, Sort: a.Sort.ElemSort()})
}

func (tb *TB) Store(a, i, v *Term) *Term {
	mustSort(i, SInt)
	if a.Sort.ElemSort() != v.Sort {
		panic(fmt.Sprintf("Store sort mismatch %s into %s", v.Sort, a.Sort))
	}
	if a.Op == "store" && a.Args[1] == i {
		a = a.Args[0]
	}
	return tb.intern(&Term{Op: "store", Args: []*Term{a, i, v}, Sort: a.Sort})
}

// ConstArr is the array holding v everywhere.
func (tb *TB) ConstArr(s Sort, v *Term) *Term {
	return tb.intern(&Term{Op: "constarr", Args: []*Term{v}, Sort: s})
}

func (tb *TB) Forall(vars []*Term, body *Term, pats ...[]*Term) *Term {
	return tb.quant("forall", vars, body, pats)
}
func (tb *TB) Exists(vars []*Term, body *Term, pats ...[]*Term) *Term {
	return tb.quant("exists", vars, body, pats)
}

func (tb *TB) quant(op string, vars []*Term, body *Term, pats [][]*Term) *Term {
	mustSort(body, SBool)
	if !body.Bound {
		return body
	}
	if body.IsTrue() || body.IsFalse() {
		return body
	}
	// prenex: (forall x (=> A (forall y B))) == (forall x y (=> A B)) when y is not free in A (bound names are unique);
	// solvers instantiate one multi-variable quantifier far more reliably than nested ones.
	if op == "forall" && len(pats) == 0 {
		// distribute over conjunctions: (forall x (and A B)) == (and (forall x A) (forall x B)),
		// (forall x (=> G (and A B))) == (and (forall x (=> G A)) (forall x (=> G B)))
		if body.Op == "and" {
			var cs []*Term
			for _, c := range body.Args {
				cs = append(cs, tb.quant(op, vars, c, nil))
			}
			return tb.And(cs...)
		}
		if body.Op == "=>" && body.Args[1].Op == "and" {
			var cs []*Term
			for _, c := range body.Args[1].Args {
				cs = append(cs, tb.quant(op, vars, tb.Implies(body.Args[0], c), nil))
			}
			return tb.And(cs...)
		}
		for {
			if body.Op == "forall" && len(body.Pats) == 0 {
				vars = append(append([]*Term{}, vars...), body.Vars...)
				body = body.Args[0]
				continue
			}
			if body.Op == "=>" && body.Args[1].Op == "forall" && len(body.Args[1].Pats) == 0 {
				inner := body.Args[1]
				vars = append(append([]*Term{}, vars...), inner.Vars...)
				g := body.Args[0]
				ib := inner.Args[0]
				if ib.Op == "=>" {
					body = tb.Implies(tb.And(g, ib.Args[0]), ib.Args[1])
				} else {
					body = tb.Implies(g, ib)
				}
				if body.Op == "=>" && body.Args[1].Op == "and" {
					return tb.quant(op, vars, body, nil)
				}
				continue
			}
			break
		}
		// drop variables that no longer occur
		vars = usedVars(vars, body)
		if len(vars) == 0 {
			return body
		}
	}
	t := tb.intern(&Term{Op: op, Args: []*Term{body}, Vars: vars, Pats: pats, Sort: SBool})
	// A quantified term is closed w.r.t. its own variables; it is "Bound" only if it
	// mentions variables bound further out.
	t.Bound = tb.freeBound(t)
	return t
}

// usedVars keeps the bound variables that occur in body.
func usedVars(vars []*Term, body *Term) []*Term {
	occ := map[*Term]bool{}
	seen := map[*Term]bool{}
	var walk func(x *Term)
	walk = func(x *Term) {
		if !x.Bound || seen[x] {
			return
		}
		seen[x] = true
		if x.Op == "bound" {
			occ[x] = true
			return
		}
		for _, a := range x.Args {
			walk(a)
		}
	}
	walk(body)
	var out []*Term
	for _, v := range vars {
		if occ[v] {
			out = append(out, v)
		}
	}
	return out
}

func (tb *TB) freeBound(t *Term) bool {
	free := map[*Term]bool{}
	var walk func(x *Term, bound map[*Term]bool)
	seen := map[*Term]bool{}
	walk = func(x *Term, bound map[*Term]bool) {
		if !x.Bound && x.Op != "forall" && x.Op != "exists" {
			return
		}
		if x.Op == "bound" {
			if !bound[x] {
				free[x] = true
			}
			return
		}
		if x.Op == "forall" || x.Op == "exists" {
			nb := map[*Term]bool{}
			for k := range bound {
				nb[k] = true
			}
			for _, v := range x.Vars {
				nb[v] = true
			}
			walk(x.Args[0], nb)
			return
		}
		if len(bound) == 0 && seen[x] {
			return
		}
		seen[x] = true
		for _, a := range x.Args {
			walk(a, bound)
		}
	}
	bound := map[*Term]bool{}
	for _, v := range t.Vars {
		bound[v] = true
	}
	walk(t.Args[0], bound)
	return len(free) > 0
}

// Subst replaces bound variables (or any terms) by others.
func (tb *TB) Subst(t *Term, m map[*Term]*Term) *Term {
	cache := map[*Term]*Term{}
	var rec func(x *Term) *Term
	rec = func(x *Term) *Term {
		if r, ok := m[x]; ok {
			return r
		}
		if len(x.Args) == 0 {
			return x
		}
		if r, ok := cache[x]; ok {
			return r
		}
		args := make([]*Term, len(x.Args))
		ch := false
		for i, a := range x.Args {
			args[i] = rec(a)
			if args[i] != a {
				ch = true
			}
		}
		var r *Term
		if !ch {
			r = x
		} else {
			r = tb.rebuild(x, args, rec)
		}
		cache[x] = r
		return r
	}
	return rec(t)
}

func (tb *TB) rebuild(x *Term, args []*Term, rec func(*Term) *Term) *Term {
	switch x.Op {
	case "not":
		return tb.Not(args[0])
	case "and":
		return tb.And(args...)
	case "or":
		return tb.Or(args...)
	case "=>":
		return tb.Implies(args[0], args[1])
	case "=":
		return tb.Eq(args[0], args[1])
	case "ite":
		return tb.Ite(args[0], args[1], args[2])
	case "+":
		return tb.Add(args[0], args[1])
	case "-":
		return tb.Sub(args[0], args[1])
	case "*":
		return tb.Mul(args[0], args[1])
	case "div":
		return tb.Div(args[0], args[1])
	case "mod":
		return tb.Mod(args[0], args[1])
	case "<":
		return tb.Lt(args[0], args[1])
	case "<=":
		return tb.Le(args[0], args[1])
	case "select":
		return tb.Select(args[0], args[1])
	case "store":
		return tb.Store(args[0], args[1], args[2])
	case "constarr":
		return tb.ConstArr(x.Sort, args[0])
	case "app":
		return tb.App(x.Name, x.Sort, args...)
	case "forall", "exists":
		var pats [][]*Term
		for _, p := range x.Pats {
			var np []*Term
			for _, q := range p {
				np = append(np, rec(q))
			}
			pats = append(pats, np)
		}
		return tb.quant(x.Op, x.Vars, args[0], pats)
	}
	panic("rebuild: " + x.Op)
}

// ---- printing ----

func (t *Term) String() string {
	var sb strings.Builder
	t.write(&sb, nil)
	return sb.String()
}

func intLit(v *big.Int) string {
	if v.Sign() < 0 {
		return "(- " + new(big.Int).Neg(v).String() + ")"
	}
	return v.String()
}

// write prints the term; shared maps term -> name for terms defined by define-fun.
func (t *Term) write(sb *strings.Builder, shared map[*Term]string) {
	if n, ok := shared[t]; ok {
		sb.WriteString(n)
		return
	}
	t.writeBody(sb, shared)
}

func (t *Term) writeBody(sb *strings.Builder, shared map[*Term]string) {
	switch t.Op {
	case "int":
		sb.WriteString(intLit(t.Int))
	case "true", "false":
		sb.WriteString(t.Op)
	case "const", "bound":
		sb.WriteString(t.Name)
	case "app":
		sb.WriteString("(" + t.Name)
		for _, a := range t.Args {
			sb.WriteByte(' ')
			a.write(sb, shared)
		}
		sb.WriteByte(')')
	case "constarr":
		sb.WriteString("((as const " + t.Sort.String() + ") ")
		t.Args[0].write(sb, shared)
		sb.WriteByte(')')
	case "forall", "exists":
		sb.WriteString("(" + t.Op + " (")
		for _, v := range t.Vars {
			sb.WriteString("(" + v.Name + " " + v.Sort.String() + ")")
		}
		sb.WriteString(") ")
		if len(t.Pats) > 0 {
			sb.WriteString("(! ")
		}
		t.Args[0].write(sb, shared)
		for _, p := range t.Pats {
			sb.WriteString(" :pattern (")
			for i, q := range p {
				if i > 0 {
					sb.WriteByte(' ')
				}
				q.write(sb, shared)
			}
			sb.WriteString(")")
		}
		if len(t.Pats) > 0 {
			sb.WriteString(")")
		}
		sb.WriteString(")")
	default:
		sb.WriteString("(" + t.Op)
		for _, a := range t.Args {
			sb.WriteByte(' ')
			a.write(sb, shared)
		}
		sb.WriteByte(')')
	}
}

// Script assembles SMT-LIB text: declarations for every symbol reachable from
// the given terms, define-funs for shared closed subterms.
type Script struct {
	tb     *TB
	sb     strings.Builder
	shared map[*Term]string
	done   map[*Term]bool
	declOK map[string]bool
	decls  strings.Builder
}

func (tb *TB) NewScript() *Script {
	return &Script{tb: tb, shared: map[*Term]string{}, done: map[*Term]bool{}, declOK: map[string]bool{}}
}

// Prepare walks all terms that will be printed, emitting declarations and
// choosing which subterms are shared. Must be called with every term before Text.
func (s *Script) Prepare(terms []*Term) {
	refs := map[*Term]int{}
	var order []*Term
	var walk func(t *Term)
	walk = func(t *Term) {
		refs[t]++
		if refs[t] > 1 {
			return
		}
		for _, a := range t.Args {
			walk(a)
		}
		for _, p := range t.Pats {
			for _, q := range p {
				walk(q)
			}
		}
		order = append(order, t)
	}
	for _, t := range terms {
		walk(t)
	}
	sort.SliceStable(order, func(i, j int) bool { return order[i].ID < order[j].ID })
	var names []string
	for _, t := range order {
		if (t.Op == "const" || t.Op == "app") && !s.declOK[t.Name] {
			s.declOK[t.Name] = true
			names = append(names, t.Name)
		}
	}
	sort.Slice(names, func(i, j int) bool { return s.tb.Decls[names[i]].ID < s.tb.Decls[names[j]].ID })
	for _, n := range names {
		d := s.tb.Decls[n]
		fmt.Fprintf(&s.decls, "(declare-fun %s (", d.Name)
		for i, a := range d.Args {
			if i > 0 {
				s.decls.WriteByte(' ')
			}
			s.decls.WriteString(a.String())
		}
		fmt.Fprintf(&s.decls, ") %s)\n", d.Ret)
	}
	for _, t := range order {
		if refs[t] > 1 && !t.Bound && len(t.Args) > 0 && t.Op != "forall" && t.Op != "exists" {
			name := fmt.Sprintf("$t%d", t.ID)
			var b strings.Builder
			t.writeBody(&b, s.shared)
			fmt.Fprintf(&s.decls, "(define-fun %s () %s %s)\n", name, t.Sort, b.String())
			s.shared[t] = name
		}
	}
}

func (s *Script) Header() string { return s.decls.String() }

func (s *Script) TermText(t *Term) string {
	var b strings.Builder
	t.write(&b, s.shared)
	return b.String()
}
