package eng

import (
	"fmt"
	"strings"
	"go/token"
	"go/types"
	"math/big"

	"golang.org/x/tools/go/ssa"
)

// Model of io.Reader / io.Writer and the primitive codec helpers built on them.
//
// A reader is an arbitrary open byte stream: every primitive read either fails
// with an arbitrary error or yields arbitrary bytes (values of the read type's
// full range). The ghost state "rpos" (reader -> number of bytes consumed so
// far) and the uninterpreted stream content make "exactly these bytes were
// consumed" expressible; each value read is also recorded on the path's trace
// so that a counterexample can be turned into a concrete byte string.

func (e *Engine) ghostArr(st *State, name string, s Sort) *Term {
	ghostSorts[name] = s
	if t, ok := st.Ghost[name]; ok {
		return t
	}
	return e.tb.Const("G0!"+name, s)
}

var ghostSorts = map[string]Sort{"setbyteslen": SInt, "closed": SArrB, "sends": SArrI, "held": SArrB, "kvput": SArrB, "kvdel": SArrB, "kvapplied": SArrI, "kvbatch": SArrB, "marks": SArrB, "ctxdone": SArrB, "ctxbounded": SArrB, "wpos": SArrI, "wbytes": SArr2I, "rfail": SArrB, "unmarshalled": SArrB, "recvcount": SInt, "recvnonnil": SInt, "bufsrc": SArrI, "aflag": SArrB}

func (e *Engine) setGhost(st *State, name string, t *Term) {
	st.Ghost[name] = t
	if st.Disc != nil {
		st.Disc.Ghosts[name] = true
	}
}

// readerKey identifies a reader by its interface value.
func readerKey(tb *TB, r Val) *Term {
	return tb.App("rdkey", SInt, r.ifTag(), r.ifVal())
}

func (e *Engine) rpos(st *State, r Val) *Term {
	return e.tb.Select(e.ghostArr(st, "rpos", SArrI), readerKey(e.tb, r))
}

func (e *Engine) advance(st *State, r Val, n *Term) {
	k := readerKey(e.tb, r)
	cur := e.ghostArr(st, "rpos", SArrI)
	e.setGhost(st, "rpos", e.tb.Store(cur, k, e.tb.Add(e.tb.Select(cur, k), n)))
}

// unixNano: the uninterpreted nanosecond count of a time value (an int64).
func (e *Engine) unixNano(st *State, t Val, T types.Type) *Term {
	tb := e.tb
	t = e.flatten(st, T, t)
	r := tb.App("time_unixnano", SInt, intTerms(tb, t.T)...)
	e.assume(st, tb.And(tb.Le(tb.BigInt(new(big.Int).Neg(pow2big(63))), r), tb.Lt(r, tb.BigInt(pow2big(63)))))
	return r
}

// isBigEndian: the byte order argument of binary.Read/Write is binary.BigEndian (anything else is treated as little endian, the
// only other order the repository uses).
func isBigEndian(order Val) bool {
	if ix, ok := order.ann("").(*IfaceX); ok && ix.Dyn != nil {
		return strings.Contains(ix.Dyn.String(), "bigEndian")
	}
	return false
}

// writerKey identifies a writer by its interface value.
func writerKey(tb *TB, w Val) *Term {
	return tb.App("wrkey", SInt, w.ifTag(), w.ifVal())
}

// Byte model of writers (stream model only): ghost "wpos" (writer -> number of bytes written so far) and "wbytes"
// (writer -> position -> byte). A successful write of n bytes stores them at wpos..wpos+n-1 and advances wpos by n; a failed
// write leaves an arbitrary output behind (nothing is known about the writer afterwards except that wpos did not decrease).
func (e *Engine) writeBytes(st *State, w Val, n *Term, ok *Term, byteAt func(i *Term) *Term, consts []*Term) {
	if !e.Opts.StreamModel {
		return
	}
	tb := e.tb
	e.Assumed["writer model: a successful Write appends exactly the given bytes to the writer's output (ghost wpos/wbytes); a failed write leaves an arbitrary output"] = true
	k := writerKey(tb, w)
	posA := e.ghostArr(st, "wpos", SArrI)
	byA := e.ghostArr(st, "wbytes", SArr2I)
	pos := tb.Select(posA, k)
	oldRow := tb.Select(byA, k)
	var okRow *Term
	if consts != nil {
		okRow = oldRow
		for i, c := range consts {
			okRow = tb.Store(okRow, tb.Add(pos, tb.Int(int64(i))), c)
		}
	} else {
		nr := tb.Fresh("wr_row", SArrI)
		i := tb.BoundVar("i", SInt)
		in := tb.And(tb.Le(pos, i), tb.Lt(i, tb.Add(pos, n)))
		e.assume(st, tb.Forall([]*Term{i}, tb.Eq(tb.Select(nr, i), tb.Ite(in, byteAt(tb.Sub(i, pos)), tb.Select(oldRow, i))), []*Term{tb.Select(nr, i)}))
		okRow = nr
	}
	badRow := tb.Fresh("wr_failed_row", SArrI)
	badAdv := tb.Fresh("wr_failed_n", SInt)
	e.assume(st, tb.Le(tb.Int(0), badAdv))
	e.setGhost(st, "wbytes", tb.Store(byA, k, tb.Ite(ok, okRow, badRow)))
	e.setGhost(st, "wpos", tb.Store(posA, k, tb.Add(pos, tb.Ite(ok, n, badAdv))))
}

// readerFailed records that a read on r returned an error (ghost "rfail": reader -> some read failed so far).
func (e *Engine) readerFailed(st *State, r Val, failed *Term) {
	if !e.Opts.StreamModel {
		return
	}
	tb := e.tb
	k := readerKey(tb, r)
	cur := e.ghostArr(st, "rfail", SArrB)
	e.setGhost(st, "rfail", tb.Store(cur, k, tb.Or(tb.Select(cur, k), failed)))
}

// streamByte(reader, i): the i-th byte of the reader's stream.
func (e *Engine) streamByte(r Val, i *Term) *Term {
	return e.tb.App("stream", SInt, readerKey(e.tb, r), i)
}

// fillFromStream constrains row[off..off+n) to be stream[pos..pos+n).
func (e *Engine) fillFromStream(st *State, r Val, buf Val, n *Term, partial bool) {
	tb := e.tb
	cl := "E:uint8"
	h := e.H(st, cl, SArr2I)
	if !e.Opts.StreamModel {
		// light model (safety sweeps): the buffer holds arbitrary bytes afterwards
		e.setH(st, cl, tb.Store(h, buf.slArr(), tb.Fresh("read_row", SArrI)))
		e.viewWriteBack(st, buf)
		return
	}
	old := tb.Select(h, buf.slArr())
	nr := tb.Fresh("read_row", SArrI)
	pos := e.rpos(st, r)
	i := tb.BoundVar("i", SInt)
	inRange := tb.And(tb.Le(buf.slOff(), i), tb.Lt(i, tb.Add(buf.slOff(), n)))
	sb := tb.App("stream", SInt, readerKey(tb, r), tb.Add(pos, tb.Sub(i, buf.slOff())))
	e.assume(st, tb.Forall([]*Term{i}, tb.And(
		tb.Implies(inRange, tb.And(tb.Eq(tb.Select(nr, i), sb), tb.Le(tb.Int(0), tb.Select(nr, i)), tb.Le(tb.Select(nr, i), tb.Int(255)))),
		tb.Implies(tb.Not(inRange), tb.Eq(tb.Select(nr, i), tb.Select(old, i)))), []*Term{tb.Select(nr, i)}))
	e.setH(st, cl, tb.Store(h, buf.slArr(), nr))
	e.viewWriteBack(st, buf)
}

func init() {
	libIface["io.Reader.Read"] = func(e *Engine, st *State, c *ssa.CallCommon, recv Val, args []Val, pos token.Pos, k Kont) {
		tb := e.tb
		buf := e.materialiseIfSlice(st, args[0], c.Signature().Params().At(0).Type())
		n := tb.Fresh("rd_n", SInt)
		errv := e.freshVal(st, c.Signature().Results().At(1).Type(), "rd_err")
		e.assume(st, tb.And(tb.Le(tb.Int(0), n), tb.Le(n, buf.slLen())))
		// reader contract of the property: an open stream makes progress
		e.Assumed["io.Reader contract: Read returns 0 <= n <= len(p); n >= 1 when len(p) >= 1 and err == nil; bytes are the next n stream bytes"] = true
		e.assume(st, tb.Implies(tb.And(tb.Ge(buf.slLen(), tb.Int(1)), tb.Eq(errv.ifTag(), tb.Int(0))), tb.Ge(n, tb.Int(1))))
		e.fillFromStream(st, recv, buf, n, true)
		st.Trace = append(st.Trace, TraceEv{Kind: "read", Len: n, Note: "Read", Val: e.rowSample(st, buf)})
		e.advance(st, recv, n)
		e.readerFailed(st, recv, tb.Neq(errv.ifTag(), tb.Int(0)))
		k(st, Val{Elems: []Val{scalar(n), errv}})
	}
	libSpecs["io.ReadFull"] = func(e *Engine, st *State, fn *ssa.Function, args []Val, pos token.Pos, k Kont) {
		tb := e.tb
		e.oblige(st, "nil", "", pos, tb.Neq(args[0].ifTag(), tb.Int(0)), "io.ReadFull on nil reader")
		buf := e.materialiseIfSlice(st, args[1], fn.Signature.Params().At(1).Type())
		ok := tb.Fresh("rf_ok", SBool)
		n := tb.Fresh("rf_n", SInt)
		errv := e.newError(st, "rf")
		e.assume(st, tb.And(tb.Le(tb.Int(0), n), tb.Le(n, buf.slLen()), tb.Eq(ok, tb.Eq(n, buf.slLen()))))
		e.fillFromStream(st, args[0], buf, n, false)
		st.Trace = append(st.Trace, TraceEv{Kind: "readfull", Len: buf.slLen(), Note: "ReadFull", Val: e.rowSample(st, buf)})
		e.advance(st, args[0], n)
		e.readerFailed(st, args[0], tb.Not(ok))
		k(st, Val{Elems: []Val{scalar(n), Val{T: []*Term{tb.Ite(ok, tb.Int(0), errv.ifTag()), tb.Ite(ok, tb.Int(0), errv.ifVal())}}}})
	}
	// io.ReadAtLeast(r, buf, min): on success between min and len(buf) bytes were consumed (it keeps reading until at least min);
	// min > len(buf) is an error without reading
	libSpecs["io.ReadAtLeast"] = func(e *Engine, st *State, fn *ssa.Function, args []Val, pos token.Pos, k Kont) {
		tb := e.tb
		e.oblige(st, "nil", "", pos, tb.Neq(args[0].ifTag(), tb.Int(0)), "io.ReadAtLeast on nil reader")
		buf := e.materialiseIfSlice(st, args[1], fn.Signature.Params().At(1).Type())
		min := args[2].T[0]
		ok := tb.Fresh("ral_ok", SBool)
		n := tb.Fresh("ral_n", SInt)
		errv := e.newError(st, "ral")
		e.assume(st, tb.And(tb.Le(tb.Int(0), n), tb.Le(n, buf.slLen()), tb.Eq(ok, tb.And(tb.Ge(n, min), tb.Le(min, buf.slLen())))))
		e.assume(st, tb.Implies(tb.Gt(min, buf.slLen()), tb.Eq(n, tb.Int(0))))
		e.fillFromStream(st, args[0], buf, n, false)
		e.advance(st, args[0], n)
		e.readerFailed(st, args[0], tb.Not(ok))
		k(st, Val{Elems: []Val{scalar(n), Val{T: []*Term{tb.Ite(ok, tb.Int(0), errv.ifTag()), tb.Ite(ok, tb.Int(0), errv.ifVal())}}}})
	}
	libSpecs["encoding/binary.Read"] = func(e *Engine, st *State, fn *ssa.Function, args []Val, pos token.Pos, k Kont) {
		tb := e.tb
		e.oblige(st, "nil", "", pos, tb.Neq(args[0].ifTag(), tb.Int(0)), "binary.Read on nil reader")
		data := args[2]
		ix, isC := data.ann("").(*IfaceX)
		if !isC {
			panic(e.unsupported("binary.Read into a value of unknown dynamic type"))
		}
		pt, isPtr := ix.Dyn.Underlying().(*types.Pointer)
		if !isPtr {
			panic(e.unsupported("binary.Read into non-pointer " + ix.Dyn.String()))
		}
		T := pt.Elem()
		size := e.Sizes.Sizeof(T)
		b, isBasic := T.Underlying().(*types.Basic)
		if !isBasic || (b.Info()&(types.IsInteger|types.IsBoolean)) == 0 {
			panic(e.unsupported("binary.Read into " + T.String()))
		}
		ok := tb.Fresh("br_ok", SBool)
		errv := e.newError(st, "br")
		ptr := e.unbox(st, data, ix.Dyn)
		e.nilCheck(st, ptr, pos, "binary.Read into nil pointer")
		oldv := e.load(st, ptr, T)
		var nv *Term
		bits := int(size) * 8
		raw := tb.Fresh(fmt.Sprintf("rd_u%d", bits), SInt)
		// the raw unsigned little-endian value of the next size bytes
		max := tb.BigInt(maxLenBits(bits))
		e.assume(st, tb.And(tb.Le(tb.Int(0), raw), tb.Lt(raw, max)))
		e.assume(st, tb.Eq(raw, tb.App(fmt.Sprintf("le%d", bits), SInt, readerKey(tb, args[0]), e.rpos(st, args[0]))))
		if e.Opts.StreamModel {
			// little-endian value of the next size stream bytes
			var sum *Term = tb.Int(0)
			be := isBigEndian(args[1])
			for bi := int64(0); bi < size; bi++ {
				sb := tb.App("stream", SInt, readerKey(tb, args[0]), tb.Add(e.rpos(st, args[0]), tb.Int(bi)))
				e.assume(st, tb.And(tb.Le(tb.Int(0), sb), tb.Le(sb, tb.Int(255))))
				w := bi
				if be {
					w = size - 1 - bi
				}
				sum = tb.Add(sum, tb.Mul(tb.BigInt(pow2big(int(8*w))), sb))
			}
			e.assume(st, tb.Eq(raw, sum))
		}
		if b.Info()&types.IsBoolean != 0 {
			nvb := tb.Neq(raw, tb.Int(0))
			st.Trace = append(st.Trace, TraceEv{Kind: "prim", Bits: bits, Val: raw, Note: T.String()})
			e.store(st, ptr, T, scalar(tb.Ite(ok, nvb, oldv.T[0])))
		} else {
			nv = e.wrap(raw, T)
			st.Trace = append(st.Trace, TraceEv{Kind: "prim", Bits: bits, Val: raw, Note: T.String()})
			e.store(st, ptr, T, scalar(tb.Ite(ok, nv, oldv.T[0])))
		}
		n := tb.Fresh("br_n", SInt)
		e.assume(st, tb.And(tb.Le(tb.Int(0), n), tb.Le(n, tb.Int(size)), tb.Implies(ok, tb.Eq(n, tb.Int(size)))))
		e.advance(st, args[0], n)
		e.readerFailed(st, args[0], tb.Not(ok))
		k(st, Val{T: []*Term{tb.Ite(ok, tb.Int(0), errv.ifTag()), tb.Ite(ok, tb.Int(0), errv.ifVal())}})
	}
	libIface["io.Writer.Write"] = func(e *Engine, st *State, c *ssa.CallCommon, recv Val, args []Val, pos token.Pos, k Kont) {
		tb := e.tb
		buf := e.materialiseIfSlice(st, args[0], c.Signature().Params().At(0).Type())
		n := tb.Fresh("wr_n", SInt)
		errv := e.freshVal(st, c.Signature().Results().At(1).Type(), "wr_err")
		e.assume(st, tb.And(tb.Le(tb.Int(0), n), tb.Le(n, buf.slLen()), tb.Implies(tb.Eq(errv.ifTag(), tb.Int(0)), tb.Eq(n, buf.slLen()))))
		e.Assumed["io.Writer contract: Write returns n == len(p) when err == nil"] = true
		e.writeEvent(st, recv, "bytes", buf.slLen(), e.rowToken(st, buf), tb.Eq(errv.ifTag(), tb.Int(0)))
		srcRow := tb.Select(e.H(st, "E:uint8", SArr2I), buf.slArr())
		e.writeBytes(st, recv, buf.slLen(), tb.Eq(errv.ifTag(), tb.Int(0)), func(i *Term) *Term { return tb.Select(srcRow, tb.Add(buf.slOff(), i)) }, nil)
		k(st, Val{Elems: []Val{scalar(n), errv}})
	}
	libSpecs["encoding/binary.Write"] = func(e *Engine, st *State, fn *ssa.Function, args []Val, pos token.Pos, k Kont) {
		tb := e.tb
		e.oblige(st, "nil", "", pos, tb.Neq(args[0].ifTag(), tb.Int(0)), "binary.Write on nil writer")
		data := args[2]
		ix, isC := data.ann("").(*IfaceX)
		if !isC {
			panic(e.unsupported("binary.Write of a value of unknown dynamic type"))
		}
		T := ix.Dyn
		b, isBasic := T.Underlying().(*types.Basic)
		if !isBasic || (b.Info()&(types.IsInteger|types.IsBoolean)) == 0 {
			panic(e.unsupported("binary.Write of " + T.String()))
		}
		v := e.unbox(st, data, T)
		vt := v.T[0]
		if vt.Sort == SBool {
			vt = tb.Ite(vt, tb.Int(1), tb.Int(0))
		}
		errv := e.freshVal(st, fn.Signature.Results().At(0).Type(), "bw_err")
		e.writeEvent(st, args[0], fmt.Sprintf("u%d", e.Sizes.Sizeof(T)*8), tb.Int(e.Sizes.Sizeof(T)), vt, tb.Eq(errv.ifTag(), tb.Int(0)))
		if e.Opts.StreamModel {
			// the little-endian bytes of the value's two's complement representation
			size := e.Sizes.Sizeof(T)
			u := tb.Ite(tb.Lt(vt, tb.Int(0)), tb.Add(vt, tb.BigInt(pow2big(int(8*size)))), vt)
			var bs []*Term
			var sum *Term = tb.Int(0)
			be := isBigEndian(args[1])
			for bi := int64(0); bi < size; bi++ {
				b := tb.Fresh("wr_byte", SInt)
				e.assume(st, tb.And(tb.Le(tb.Int(0), b), tb.Le(b, tb.Int(255))))
				w := bi
				if be {
					w = size - 1 - bi
				}
				sum = tb.Add(sum, tb.Mul(tb.BigInt(pow2big(int(8*w))), b))
				bs = append(bs, b)
			}
			e.assume(st, tb.Eq(u, sum))
			e.writeBytes(st, args[0], tb.Int(size), tb.Eq(errv.ifTag(), tb.Int(0)), nil, bs)
		}
		k(st, errv)
	}
	libSpecs["io.WriteString"] = func(e *Engine, st *State, fn *ssa.Function, args []Val, pos token.Pos, k Kont) {
		tb := e.tb
		n := tb.Fresh("ws_n", SInt)
		errv := e.freshVal(st, fn.Signature.Results().At(1).Type(), "ws_err")
		e.assume(st, tb.Le(tb.Int(0), n))
		e.writeEvent(st, args[0], "string", e.strLen(st, args[1].T[0]), args[1].T[0], tb.Eq(errv.ifTag(), tb.Int(0)))
		sbRow := tb.App("strbytes", SArrI, args[1].T[0])
		if e.Opts.StreamModel {
			e.Assumed["strings: string([]byte(s)) == s (bytes2str is the inverse of strbytes)"] = true
			e.assume(st, tb.Eq(tb.App("bytes2str", SInt, sbRow, tb.Int(0), e.strLen(st, args[1].T[0])), args[1].T[0]))
		}
		e.writeBytes(st, args[0], e.strLen(st, args[1].T[0]), tb.Eq(errv.ifTag(), tb.Int(0)), func(i *Term) *Term { return tb.Select(sbRow, i) }, nil)
		k(st, Val{Elems: []Val{scalar(n), errv}})
	}
	// Unmarshalling into / decoding a value of a type outside the repository's knowledge (unknown dynamic type):
	// interface contract - returns an error or nil, does not panic, writes only its own receiver.
	libIface["encoding.BinaryUnmarshaler.UnmarshalBinary"] = func(e *Engine, st *State, c *ssa.CallCommon, recv Val, args []Val, pos token.Pos, k Kont) {
		e.Assumed["UnmarshalBinary of types with unknown dynamic type (third-party assets, addresses, app ids, data): does not panic, touches only its receiver"] = true
		// ghost: the value has been handed to its unmarshaler
		um := e.ghostArr(st, "unmarshalled", SArrB)
		e.setGhost(st, "unmarshalled", e.tb.Store(um, recv.ifVal(), e.tb.True()))
		// ghost: the identity of the bytes it was given (unmarshalledFrom(y); equals marshalOf(x) iff they are what x's marshaler produced)
		if len(args) == 1 && len(args[0].T) == 4 {
			d := e.materialiseIfSlice(st, args[0], c.Signature().Params().At(0).Type())
			row := e.tb.Select(e.H(st, "E:uint8", SArr2I), d.slArr())
			uf := e.ghostArr(st, "unmarshalledFrom", SArrI)
			e.setGhost(st, "unmarshalledFrom", e.tb.Store(uf, recv.ifVal(), e.tb.App("bytestok", SInt, row, d.slOff(), d.slLen())))
		}
		k(st, e.freshVal(st, c.Signature().Results().At(0).Type(), "unm_err"))
	}
	libIface["encoding.BinaryMarshaler.MarshalBinary"] = func(e *Engine, st *State, c *ssa.CallCommon, recv Val, args []Val, pos token.Pos, k Kont) {
		e.Assumed["MarshalBinary of types with unknown dynamic type: does not panic, returns a byte slice or an error"] = true
		tb := e.tb
		ln := tb.App("marshallen", SInt, recv.ifTag(), recv.ifVal())
		e.assume(st, tb.And(tb.Le(tb.Int(0), ln), tb.Le(ln, tb.BigInt(maxLen))))
		sl := e.allocSlice(st, types.Typ[types.Uint8], ln, ln)
		cl := "E:uint8"
		st.Heap[cl] = tb.Store(e.H(st, cl, SArr2I), sl.slArr(), tb.App("marshalbytes", SArrI, recv.ifTag(), recv.ifVal()))
		// marshalOf(x): the identity of what x's marshaler produced (a function of its bytes)
		e.assume(st, tb.Eq(tb.App("bytestok", SInt, tb.App("marshalbytes", SArrI, recv.ifTag(), recv.ifVal()), tb.Int(0), ln), tb.App("marshalval", SInt, recv.ifTag(), recv.ifVal())))
		errv := e.freshVal(st, c.Signature().Results().At(1).Type(), "mb_err")
		k(st, Val{Elems: []Val{sl, errv}})
	}
	libIface["wire_perunio.Decoder.Decode"] = func(e *Engine, st *State, c *ssa.CallCommon, recv Val, args []Val, pos token.Pos, k Kont) {
		e.Assumed["Decode of values with unknown dynamic type (third-party wire addresses etc.): does not panic, touches only its receiver"] = true
		k(st, e.freshVal(st, c.Signature().Results().At(0).Type(), "dec_err"))
	}
	libIface["wire_perunio.Encoder.Encode"] = func(e *Engine, st *State, c *ssa.CallCommon, recv Val, args []Val, pos token.Pos, k Kont) {
		e.Assumed["Encode of values with unknown dynamic type: does not panic"] = true
		k(st, e.freshVal(st, c.Signature().Results().At(0).Type(), "enc_err"))
	}
	// encoding/binary byte order helpers: bounds requirement and an uninterpreted value
	for _, bo := range []string{"littleEndian", "bigEndian"} {
		for _, w := range []int{16, 32, 64} {
			w := w
			bo := bo
			libSpecs[fmt.Sprintf("(encoding/binary.%s).Uint%d", bo, w)] = func(e *Engine, st *State, fn *ssa.Function, args []Val, pos token.Pos, k Kont) {
				tb := e.tb
				b := e.materialiseIfSlice(st, args[len(args)-1], fn.Signature.Params().At(0).Type())
				e.oblige(st, "bounds", "", pos, tb.Ge(b.slLen(), tb.Int(int64(w/8))), fmt.Sprintf("binary.%s.Uint%d: slice shorter than %d bytes", bo, w, w/8))
				row := tb.Select(e.H(st, "E:uint8", SArr2I), b.slArr())
				r := tb.App(fmt.Sprintf("bo_%s_u%d", bo, w), SInt, row, b.slOff())
				e.assume(st, tb.And(tb.Le(tb.Int(0), r), tb.Lt(r, tb.BigInt(pow2big(w)))))
				k(st, scalar(r))
			}
			libSpecs[fmt.Sprintf("(encoding/binary.%s).PutUint%d", bo, w)] = func(e *Engine, st *State, fn *ssa.Function, args []Val, pos token.Pos, k Kont) {
				tb := e.tb
				b := e.materialiseIfSlice(st, args[len(args)-2], fn.Signature.Params().At(0).Type())
				e.oblige(st, "bounds", "", pos, tb.Ge(b.slLen(), tb.Int(int64(w/8))), fmt.Sprintf("binary.%s.PutUint%d: slice shorter than %d bytes", bo, w, w/8))
				h := e.H(st, "E:uint8", SArr2I)
				oldRow := tb.Select(h, b.slArr())
				nr := tb.Fresh("put_row", SArrI)
				// the written bytes decode to the value (Uint(Put(v)) == v); bytes outside the w/8 written ones keep their values
				e.Assumed["encoding/binary byte orders: UintN reads back what PutUintN wrote"] = true
				v := args[len(args)-1].T[0]
				e.assume(st, tb.Eq(tb.App(fmt.Sprintf("bo_%s_u%d", bo, w), SInt, nr, b.slOff()), tb.Mod(v, tb.BigInt(pow2big(w)))))
				// the individual bytes: their weighted sum in the byte order is the value
				var sum *Term = tb.Int(0)
				for bi := 0; bi < w/8; bi++ {
					by := tb.Select(nr, tb.Add(b.slOff(), tb.Int(int64(bi))))
					e.assume(st, tb.And(tb.Le(tb.Int(0), by), tb.Le(by, tb.Int(255))))
					wt := bi
					if bo == "bigEndian" {
						wt = w/8 - 1 - bi
					}
					sum = tb.Add(sum, tb.Mul(tb.BigInt(pow2big(8*wt)), by))
				}
				e.assume(st, tb.Eq(sum, tb.Mod(v, tb.BigInt(pow2big(w)))))
				m := tb.BoundVar("m", SInt)
				e.assume(st, tb.Forall([]*Term{m}, tb.Implies(tb.Or(tb.Lt(m, b.slOff()), tb.Ge(m, tb.Add(b.slOff(), tb.Int(int64(w/8))))), tb.Eq(tb.Select(nr, m), tb.Select(oldRow, m))), []*Term{tb.Select(nr, m)}))
				e.setH(st, "E:uint8", tb.Store(h, b.slArr(), nr))
				k(st, Val{})
			}
		}
	}
	// proto.Unmarshal: trusted; afterwards the message tree is arbitrary (any nested pointer may be nil, any list arbitrary)
	libSpecs["google.golang.org/protobuf/proto.Unmarshal"] = func(e *Engine, st *State, fn *ssa.Function, args []Val, pos token.Pos, k Kont) {
		msg := args[1]
		ix, ok := msg.ann("").(*IfaceX)
		if !ok {
			panic(e.unsupported("proto.Unmarshal into a message of unknown dynamic type"))
		}
		pt, isPtr := ix.Dyn.Underlying().(*types.Pointer)
		if !isPtr {
			panic(e.unsupported("proto.Unmarshal into non-pointer"))
		}
		ptr := e.unbox(st, msg, ix.Dyn)
		e.nilCheck(st, ptr, pos, "proto.Unmarshal into nil message")
		e.store(st, ptr, pt.Elem(), e.freshVal(st, pt.Elem(), "pbmsg"))
		k(st, e.freshVal(st, fn.Signature.Results().At(0).Type(), "pb_err"))
	}
	libSpecs["google.golang.org/protobuf/proto.Marshal"] = func(e *Engine, st *State, fn *ssa.Function, args []Val, pos token.Pos, k Kont) {
		tb := e.tb
		ln := tb.Fresh("pb_len", SInt)
		e.assume(st, tb.And(tb.Le(tb.Int(0), ln), tb.Le(ln, tb.BigInt(maxExisting))))
		sl := e.allocSlice(st, types.Typ[types.Uint8], ln, ln)
		k(st, Val{Elems: []Val{sl, e.freshVal(st, fn.Signature.Results().At(1).Type(), "pb_err")}})
	}
	// context: no cancellation semantics; contexts are opaque non-nil values, Err may be nil or not
	nonNilIface := func(hint string) LibFn {
		return func(e *Engine, st *State, fn *ssa.Function, args []Val, pos token.Pos, k Kont) {
			res := e.havocResults(st, fn.Signature, hint)
			r0 := res
			if res.Elems != nil {
				r0 = res.Elems[0]
			}
			if len(r0.T) == 2 {
				e.assume(st, e.tb.Neq(r0.ifTag(), e.tb.Int(0)))
			}
			if res.Elems != nil && len(res.Elems) > 1 && len(res.Elems[1].T) == 1 {
				e.assume(st, e.tb.Neq(res.Elems[1].T[0], e.tb.Int(0))) // cancel function is non-nil
			}
			k(st, res)
		}
	}
	for _, n := range []string{"context.Background", "context.TODO", "context.WithTimeout", "context.WithCancel", "context.WithDeadline", "context.WithValue",
		"(*polycry.pt/poly-go/sync.Closer).Ctx"} {
		libSpecs[n] = nonNilIface("ctx")
	}
	// deadlines: ghost flag "ctxbounded" per context value. WithTimeout/WithDeadline yield a bounded context, WithCancel/WithValue
	// inherit the flag of their parent, everything else (Background, a Closer's life-time context) is unknown.
	for _, n := range []string{"context.WithTimeout", "context.WithDeadline", "context.WithCancel", "context.WithValue"} {
		n := n
		base := libSpecs[n]
		libSpecs[n] = func(e *Engine, st *State, fn *ssa.Function, args []Val, pos token.Pos, k Kont) {
			base(e, st, fn, args, pos, func(st *State, res Val) {
				tb := e.tb
				r0 := res
				if res.Elems != nil {
					r0 = res.Elems[0]
				}
				if len(r0.T) == 2 {
					cb := e.ghostArr(st, "ctxbounded", SArrB)
					key := tb.App("ctxkey", SInt, r0.ifTag(), r0.ifVal())
					var flag *Term = tb.True()
					if (n == "context.WithCancel" || n == "context.WithValue") && len(args) > 0 && len(args[0].T) == 2 {
						flag = tb.Select(cb, tb.App("ctxkey", SInt, args[0].ifTag(), args[0].ifVal()))
					}
					e.setGhost(st, "ctxbounded", tb.Store(cb, key, flag))
				}
				k(st, res)
			})
		}
	}
	for _, n := range []string{"Err", "Done", "Deadline", "Value"} {
		n := n
		libIface["context.Context."+n] = func(e *Engine, st *State, c *ssa.CallCommon, recv Val, args []Val, pos token.Pos, k Kont) {
			res := e.havocResults(st, c.Signature(), "ctx_"+n)
			if n == "Err" && len(res.T) == 2 {
				tb := e.tb
				cd := e.ghostArr(st, "ctxdone", SArrB)
				key := tb.App("ctxkey", SInt, recv.ifTag(), recv.ifVal())
				e.assume(st, tb.Implies(tb.Select(cd, key), tb.Neq(res.ifTag(), tb.Int(0))))
			}
			k(st, res)
		}
	}
	for _, n := range []string{"(*polycry.pt/poly-go/sync.Closer).IsClosed", "(*polycry.pt/poly-go/sync.Closer).Closed"} {
		libSpecs[n] = func(e *Engine, st *State, fn *ssa.Function, args []Val, pos token.Pos, k Kont) {
			k(st, e.havocResults(st, fn.Signature, "closer"))
		}
	}
	libSpecs["(*polycry.pt/poly-go/sync.Closer).Close"] = func(e *Engine, st *State, fn *ssa.Function, args []Val, pos token.Pos, k Kont) {
		k(st, e.havocResults(st, fn.Signature, "closer"))
	}
	libSpecs["polycry.pt/poly-go/context.IsContextError"] = pureUF("ctx_IsContextError")
	// wait groups: no concurrency semantics
	for _, n := range []string{"(*polycry.pt/poly-go/sync.WaitGroup).Wait", "(*polycry.pt/poly-go/sync.WaitGroup).Add", "(*polycry.pt/poly-go/sync.WaitGroup).Done",
		"(*polycry.pt/poly-go/sync.WaitGroup).WaitCtx", "(*sync.WaitGroup).Wait", "(*sync.WaitGroup).Add", "(*sync.WaitGroup).Done"} {
		libSpecs[n] = func(e *Engine, st *State, fn *ssa.Function, args []Val, pos token.Pos, k Kont) {
			e.Assumed["wait groups: no blocking semantics (sequential model)"] = true
			k(st, e.havocResults(st, fn.Signature, "wg"))
		}
	}
	// atomic flags (polycry.pt/poly-go/sync/atomic.Bool): each operation is atomic, so it has a sequential contract over the ghost
	// array "aflag" (spec: flagset(&x.f)): TrySet sets the flag and reports whether it was unset, IsSet reads it, ...
	flagOp := func(op string) LibFn {
		return func(e *Engine, st *State, fn *ssa.Function, args []Val, pos token.Pos, k Kont) {
			tb := e.tb
			e.nilCheck(st, args[0], pos, "atomic flag through nil pointer")
			ref := e.mutexRef(args[0])
			cur := e.ghostArr(st, "aflag", SArrB)
			was := tb.Select(cur, ref)
			switch op {
			case "TrySet":
				e.setGhost(st, "aflag", tb.Store(cur, ref, tb.True()))
				k(st, scalar(tb.Not(was)))
			case "IsSet":
				k(st, scalar(was))
			case "Set":
				e.setGhost(st, "aflag", tb.Store(cur, ref, tb.True()))
				k(st, e.havocResults(st, fn.Signature, "atomic"))
			case "Unset":
				e.setGhost(st, "aflag", tb.Store(cur, ref, tb.False()))
				k(st, e.havocResults(st, fn.Signature, "atomic"))
			case "TryUnset":
				e.setGhost(st, "aflag", tb.Store(cur, ref, tb.False()))
				k(st, scalar(was))
			}
		}
	}
	for _, op := range []string{"TrySet", "IsSet", "Set", "Unset", "TryUnset"} {
		libSpecs["(*polycry.pt/poly-go/sync/atomic.Bool)."+op] = flagOp(op)
	}
	// sorted key-value store (polycry.pt/poly-go/sortedkv): abstract. Tables, batches and iterators are opaque non-nil values;
	// every operation may fail; the ghost sets "kvput"/"kvdel" record which keys were written / deleted (by key string).
	libSpecs["polycry.pt/poly-go/sortedkv.NewTable"] = nonNilIface("kvtable")
	kvp := "polycry.pt_poly-go_sortedkv."
	for _, in := range []string{"Writer", "Batch", "Database"} {
		for _, mn := range []string{"Put", "PutBytes", "Delete"} {
			set := "kvput"
			if mn == "Delete" {
				set = "kvdel"
			}
			set2 := set
			libIface[kvp+in+"."+mn] = func(e *Engine, st *State, c *ssa.CallCommon, recv Val, args []Val, pos token.Pos, k Kont) {
				tb := e.tb
				e.oblige(st, "nil", "", pos, tb.Neq(recv.ifTag(), tb.Int(0)), "store operation on nil writer")
				cur := e.ghostArr(st, set2, SArrB)
				e.setGhost(st, set2, tb.Store(cur, args[0].T[0], tb.True()))
				k(st, e.havocResults(st, c.Signature(), "kv"))
			}
		}
	}
	for _, in := range []string{"Batcher", "Database"} {
		libIface[kvp+in+".NewBatch"] = func(e *Engine, st *State, c *ssa.CallCommon, recv Val, args []Val, pos token.Pos, k Kont) {
			tb := e.tb
			e.oblige(st, "nil", "", pos, tb.Neq(recv.ifTag(), tb.Int(0)), "NewBatch on nil database")
			res := e.havocResults(st, c.Signature(), "kvbatch")
			e.assume(st, tb.Neq(res.ifTag(), tb.Int(0)))
			cur := e.ghostArr(st, "kvbatch", SArrB)
			e.setGhost(st, "kvbatch", tb.Store(cur, tb.App("kvkey", SInt, res.ifTag(), res.ifVal()), tb.True()))
			k(st, res)
		}
	}
	libIface[kvp+"Batch.Apply"] = func(e *Engine, st *State, c *ssa.CallCommon, recv Val, args []Val, pos token.Pos, k Kont) {
		tb := e.tb
		e.oblige(st, "nil", "", pos, tb.Neq(recv.ifTag(), tb.Int(0)), "Apply on nil batch")
		cur := e.ghostArr(st, "kvapplied", SArrI)
		key := tb.App("kvkey", SInt, recv.ifTag(), recv.ifVal())
		e.setGhost(st, "kvapplied", tb.Store(cur, key, tb.Add(tb.Select(cur, key), tb.Int(1))))
		k(st, e.havocResults(st, c.Signature(), "kv"))
	}
	for _, in := range []string{"Reader", "Database"} {
		for _, mn := range []string{"Has", "Get", "GetBytes"} {
			mn2 := mn
			libIface[kvp+in+"."+mn] = func(e *Engine, st *State, c *ssa.CallCommon, recv Val, args []Val, pos token.Pos, k Kont) {
				tb := e.tb
				e.oblige(st, "nil", "", pos, tb.Neq(recv.ifTag(), tb.Int(0)), "read on nil store")
				if mn2 == "GetBytes" {
					ln := tb.Fresh("kv_len", SInt)
					e.assume(st, tb.And(tb.Le(tb.Int(0), ln), tb.Le(ln, tb.BigInt(maxExisting))))
					sl := e.allocSlice(st, types.Typ[types.Uint8], ln, ln)
					k(st, Val{Elems: []Val{sl, e.freshVal(st, c.Signature().Results().At(1).Type(), "kv_err")}})
					return
				}
				k(st, e.havocResults(st, c.Signature(), "kv"))
			}
		}
	}
	// hashing: the hasher is an opaque writer; Sum returns len(b) + 32 bytes that are an uninterpreted function of what was written
	libSpecs["crypto/sha256.New"] = nonNilIface("sha256")
	libIface["hash.Hash.Sum"] = func(e *Engine, st *State, c *ssa.CallCommon, recv Val, args []Val, pos token.Pos, k Kont) {
		tb := e.tb
		in := e.materialiseIfSlice(st, args[0], c.Signature().Params().At(0).Type())
		ln := tb.Add(in.slLen(), tb.Int(32))
		k(st, e.allocSlice(st, types.Typ[types.Uint8], ln, ln))
	}
	// time: values are opaque; UnixNano is an uninterpreted function of the value with time.Unix(0, n).UnixNano() == n
	libSpecs["(time.Time).UnixNano"] = func(e *Engine, st *State, fn *ssa.Function, args []Val, pos token.Pos, k Kont) {
		r := e.unixNano(st, args[0], fn.Signature.Recv().Type())
		k(st, scalar(r))
	}
	libSpecs["time.Unix"] = func(e *Engine, st *State, fn *ssa.Function, args []Val, pos token.Pos, k Kont) {
		pureUF("time_Unix")(e, st, fn, args, pos, func(st *State, res Val) {
			if c, ok := args[0].T[0].ConstInt(); ok && c == 0 {
				e.Assumed["time: time.Unix(0, n).UnixNano() == n"] = true
				e.assume(st, e.tb.Eq(e.unixNano(st, res, fn.Signature.Results().At(0).Type()), args[1].T[0]))
			}
			k(st, res)
		})
	}
	libSpecs["(time.Time).Unix"] = pureUF("time_UnixS")
	// pure functions of time values (opaque results)
	libSpecs["(time.Time).Add"] = pureUF("time_Add")
	libSpecs["(time.Time).Sub"] = pureUF("time_Sub")
	libSpecs["(time.Time).After"] = pureUF("time_After")
	libSpecs["(time.Time).Before"] = pureUF("time_Before")
	libSpecs["(time.Time).Equal"] = pureUF("time_Equal")
	libSpecs["(time.Time).IsZero"] = pureUF("time_IsZero")
	libSpecs["time.Since"] = func(e *Engine, st *State, fn *ssa.Function, args []Val, pos token.Pos, k Kont) {
		k(st, e.havocResults(st, fn.Signature, "since"))
	}
	libSpecs["time.Until"] = libSpecs["time.Since"]
	libSpecs["time.Now"] = func(e *Engine, st *State, fn *ssa.Function, args []Val, pos token.Pos, k Kont) {
		k(st, e.havocResults(st, fn.Signature, "now"))
	}
}

func maxLenBits(bits int) (r *bigInt) { return pow2big(bits) }

// rowSample returns a term standing for the first bytes of a buffer (for traces).
func (e *Engine) rowSample(st *State, buf Val) *Term {
	tb := e.tb
	return tb.Select(tb.Select(e.H(st, "E:uint8", SArr2I), buf.slArr()), buf.slOff())
}

// rowToken abstracts the content of a byte slice as one value.
func (e *Engine) rowToken(st *State, buf Val) *Term {
	tb := e.tb
	return tb.App("bytestok", SInt, tb.Select(e.H(st, "E:uint8", SArr2I), buf.slArr()), buf.slOff(), buf.slLen())
}

// writeEvent appends a token (kind, length, value) to the ghost output of a writer.
func (e *Engine) writeEvent(st *State, w Val, kind string, ln, val *Term, ok *Term) {
	tb := e.tb
	key := writerKey(tb, w)
	cnt := e.ghostArr(st, "wcount", SArrI)
	n := tb.Select(cnt, key)
	// token arrays: wkind/wlen/wval : writer -> index -> value, flattened through an uninterpreted pairing
	idx := tb.App("wslot", SInt, key, n)
	for _, part := range []struct {
		name string
		v    *Term
	}{{"wkind", tb.Int(e.strID(kind))}, {"wlen", ln}, {"wval", val}} {
		arr := e.ghostArr(st, part.name, SArrI)
		e.setGhost(st, part.name, tb.Ite(ok, tb.Store(arr, idx, part.v), arr))
	}
	e.setGhost(st, "wcount", tb.Ite(ok, tb.Store(cnt, key, tb.Add(n, tb.Int(1))), cnt))
}

type bigInt = big.Int

func pow2big(bits int) *big.Int { return new(big.Int).Lsh(big.NewInt(1), uint(bits)) }
