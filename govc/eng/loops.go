package eng

import (
	"go/ast"
	"go/token"
	"sort"

	"golang.org/x/tools/go/ssa"
)

// loopInfo describes one natural loop.
type loopInfo struct {
	Header *ssa.BasicBlock
	Blocks map[*ssa.BasicBlock]bool
	Ord    int // 1-based ordinal of the for/range statement in source order within the function
	Pos    token.Pos
	Kind   string // "rangeindex", "rangeiter", "for", ...
}

type funcLoops struct {
	ByHeader map[*ssa.BasicBlock]*loopInfo
	List     []*loopInfo
}

// loopsOf computes natural loops of a function (own dominator computation; the
// ssa package only builds its dominator tree when lifting).
func (e *Engine) loopsOf(f *ssa.Function) *funcLoops {
	if fl, ok := e.loops[f]; ok {
		return fl
	}
	fl := &funcLoops{ByHeader: map[*ssa.BasicBlock]*loopInfo{}}
	e.loops[f] = fl
	n := len(f.Blocks)
	if n == 0 {
		return fl
	}
	// iterative dominators over block indices
	dom := make([]map[int]bool, n)
	all := map[int]bool{}
	for i := 0; i < n; i++ {
		all[i] = true
	}
	reach := map[int]bool{}
	var dfs func(b *ssa.BasicBlock)
	dfs = func(b *ssa.BasicBlock) {
		if reach[b.Index] {
			return
		}
		reach[b.Index] = true
		for _, s := range b.Succs {
			dfs(s)
		}
	}
	dfs(f.Blocks[0])
	for i := 0; i < n; i++ {
		if i == 0 {
			dom[i] = map[int]bool{0: true}
		} else {
			dom[i] = map[int]bool{}
			for k := range all {
				dom[i][k] = true
			}
		}
	}
	changed := true
	for changed {
		changed = false
		for _, b := range f.Blocks {
			if b.Index == 0 || !reach[b.Index] {
				continue
			}
			var nd map[int]bool
			for _, p := range b.Preds {
				if !reach[p.Index] {
					continue
				}
				if nd == nil {
					nd = map[int]bool{}
					for k := range dom[p.Index] {
						nd[k] = true
					}
				} else {
					for k := range nd {
						if !dom[p.Index][k] {
							delete(nd, k)
						}
					}
				}
			}
			if nd == nil {
				nd = map[int]bool{}
			}
			nd[b.Index] = true
			if len(nd) != len(dom[b.Index]) {
				dom[b.Index] = nd
				changed = true
			}
		}
	}
	for _, b := range f.Blocks {
		if !reach[b.Index] {
			continue
		}
		for _, s := range b.Succs {
			if dom[b.Index][s.Index] { // back edge b -> s
				li := fl.ByHeader[s]
				if li == nil {
					li = &loopInfo{Header: s, Blocks: map[*ssa.BasicBlock]bool{s: true}, Kind: s.Comment}
					fl.ByHeader[s] = li
					fl.List = append(fl.List, li)
				}
				// natural loop: nodes reaching b without passing s
				var stack []*ssa.BasicBlock
				if !li.Blocks[b] {
					li.Blocks[b] = true
					stack = append(stack, b)
				}
				for len(stack) > 0 {
					x := stack[len(stack)-1]
					stack = stack[:len(stack)-1]
					for _, p := range x.Preds {
						if !li.Blocks[p] && reach[p.Index] {
							li.Blocks[p] = true
							stack = append(stack, p)
						}
					}
				}
			}
		}
	}
	// ordinals: source order of for/range statements in the function's syntax
	var stmts []token.Pos
	if syn := f.Syntax(); syn != nil {
		ast.Inspect(syn, func(nd ast.Node) bool {
			switch x := nd.(type) {
			case *ast.FuncLit:
				if nd != syn {
					return false
				}
			case *ast.ForStmt:
				stmts = append(stmts, x.For)
			case *ast.RangeStmt:
				stmts = append(stmts, x.For)
			}
			return true
		})
	}
	sort.Slice(stmts, func(i, j int) bool { return stmts[i] < stmts[j] })
	// A loop's position: the smallest position of an instruction in the header or, failing that, in its blocks;
	// match to the closest enclosing for/range statement starting at or before it.
	for _, li := range fl.List {
		li.Pos = loopPos(li)
	}
	sort.Slice(fl.List, func(i, j int) bool { return fl.List[i].Pos < fl.List[j].Pos })
	// assign by order: i-th loop (by position) <-> i-th statement, when counts agree; otherwise by nearest preceding statement
	if len(stmts) == len(fl.List) {
		for i, li := range fl.List {
			li.Ord = i + 1
		}
	} else {
		for _, li := range fl.List {
			ord := 0
			for i, p := range stmts {
				if p <= li.Pos {
					ord = i + 1
				}
			}
			li.Ord = ord
		}
	}
	return fl
}

func loopPos(li *loopInfo) token.Pos {
	best := token.NoPos
	for b := range li.Blocks {
		for _, in := range b.Instrs {
			p := in.Pos()
			if p.IsValid() && (best == token.NoPos || p < best) {
				best = p
			}
		}
	}
	return best
}
