package eng

import (
	"go/token"
	"go/types"

	"golang.org/x/tools/go/ssa"
)

// LibFn is a trusted specification of an external function, written against the engine.
type LibFn func(e *Engine, st *State, fn *ssa.Function, args []Val, pos token.Pos, k Kont)

// LibIfaceFn is a trusted specification of an interface method of an external interface.
type LibIfaceFn func(e *Engine, st *State, c *ssa.CallCommon, recv Val, args []Val, pos token.Pos, k Kont)

var libSpecs = map[string]LibFn{}
var libIface = map[string]LibIfaceFn{}

func init() {
	// ---- errors ----
	newErr := func(e *Engine, st *State, fn *ssa.Function, args []Val, pos token.Pos, k Kont) {
		k(st, e.newError(st, "err"))
	}
	for _, n := range []string{"github.com/pkg/errors.New", "github.com/pkg/errors.Errorf", "fmt.Errorf", "errors.New"} {
		libSpecs[n] = newErr
	}
	wrapErr := func(e *Engine, st *State, fn *ssa.Function, args []Val, pos token.Pos, k Kont) {
		tb := e.tb
		in := args[0]
		r := e.newRef(st)
		isNil := tb.Eq(in.ifTag(), tb.Int(0))
		out := Val{T: []*Term{tb.Ite(isNil, tb.Int(0), tb.Int(e.errTag())), tb.Ite(isNil, tb.Int(0), r)}}
		// the cause is preserved
		e.assume(st, tb.Implies(tb.Not(isNil), tb.And(
			tb.Eq(tb.App("errcause_tag", SInt, out.ifTag(), out.ifVal()), tb.App("errcause_tag", SInt, in.ifTag(), in.ifVal())),
			tb.Eq(tb.App("errcause_val", SInt, out.ifTag(), out.ifVal()), tb.App("errcause_val", SInt, in.ifTag(), in.ifVal())))))
		k(st, out)
	}
	for _, n := range []string{"github.com/pkg/errors.WithMessage", "github.com/pkg/errors.WithMessagef", "github.com/pkg/errors.Wrap", "github.com/pkg/errors.Wrapf", "github.com/pkg/errors.WithStack"} {
		libSpecs[n] = wrapErr
	}
	libSpecs["github.com/pkg/errors.Cause"] = func(e *Engine, st *State, fn *ssa.Function, args []Val, pos token.Pos, k Kont) {
		tb := e.tb
		in := args[0]
		isNil := tb.Eq(in.ifTag(), tb.Int(0))
		ct := tb.App("errcause_tag", SInt, in.ifTag(), in.ifVal())
		cv := tb.App("errcause_val", SInt, in.ifTag(), in.ifVal())
		e.assume(st, tb.Implies(tb.Not(isNil), tb.Gt(ct, tb.Int(0))))
		k(st, Val{T: []*Term{tb.Ite(isNil, tb.Int(0), ct), tb.Ite(isNil, tb.Int(0), cv)}})
	}
	libSpecs["errors.Is"] = pureUF("errors_Is")
	libSpecs["errors.As"] = pureUF("errors_As")
	libIface["error.Error"] = func(e *Engine, st *State, c *ssa.CallCommon, recv Val, args []Val, pos token.Pos, k Kont) {
		k(st, scalar(e.tb.App("errstring", SInt, recv.ifTag(), recv.ifVal())))
	}
	// ---- fmt / strings: opaque strings ----
	for _, n := range []string{"fmt.Sprintf", "fmt.Sprint", "fmt.Sprintln"} {
		libSpecs[n] = func(e *Engine, st *State, fn *ssa.Function, args []Val, pos token.Pos, k Kont) {
			r := e.tb.Fresh("str", SInt)
			e.assume(st, e.tb.Ge(r, e.tb.Int(0)))
			k(st, scalar(r))
		}
	}
	for _, n := range []string{"fmt.Printf", "fmt.Println", "fmt.Print", "fmt.Fprintf", "fmt.Fprintln", "fmt.Fprint"} {
		libSpecs[n] = func(e *Engine, st *State, fn *ssa.Function, args []Val, pos token.Pos, k Kont) {
			k(st, e.havocResults(st, fn.Signature, "fmt"))
		}
	}
	// ---- math/big ----
	bigNil := func(e *Engine, st *State, v Val, pos token.Pos, what string) {
		e.oblige(st, "nil", "", pos, e.tb.Neq(v.T[0], e.tb.Int(0)), "nil *big.Int ("+what+")")
	}
	bv := func(e *Engine, st *State, r *Term) *Term { return e.tb.Select(e.H(st, "BigVal", SArrI), r) }
	setBV := func(e *Engine, st *State, r, v *Term) {
		e.setH(st, "BigVal", e.tb.Store(e.H(st, "BigVal", SArrI), r, v))
	}
	libSpecs["(*math/big.Int).Set"] = func(e *Engine, st *State, fn *ssa.Function, args []Val, pos token.Pos, k Kont) {
		bigNil(e, st, args[0], pos, "Set receiver")
		bigNil(e, st, args[1], pos, "Set argument")
		setBV(e, st, args[0].T[0], bv(e, st, args[1].T[0]))
		k(st, args[0])
	}
	libSpecs["(*math/big.Int).Cmp"] = func(e *Engine, st *State, fn *ssa.Function, args []Val, pos token.Pos, k Kont) {
		tb := e.tb
		bigNil(e, st, args[0], pos, "Cmp receiver")
		bigNil(e, st, args[1], pos, "Cmp argument")
		x, y := bv(e, st, args[0].T[0]), bv(e, st, args[1].T[0])
		k(st, scalar(tb.Ite(tb.Lt(x, y), tb.Int(-1), tb.Ite(tb.Gt(x, y), tb.Int(1), tb.Int(0)))))
	}
	libSpecs["(*math/big.Int).Sign"] = func(e *Engine, st *State, fn *ssa.Function, args []Val, pos token.Pos, k Kont) {
		tb := e.tb
		bigNil(e, st, args[0], pos, "Sign receiver")
		x := bv(e, st, args[0].T[0])
		k(st, scalar(tb.Ite(tb.Lt(x, tb.Int(0)), tb.Int(-1), tb.Ite(tb.Gt(x, tb.Int(0)), tb.Int(1), tb.Int(0)))))
	}
	arith := func(op string) LibFn {
		return func(e *Engine, st *State, fn *ssa.Function, args []Val, pos token.Pos, k Kont) {
			tb := e.tb
			bigNil(e, st, args[0], pos, op+" receiver")
			bigNil(e, st, args[1], pos, op+" argument")
			bigNil(e, st, args[2], pos, op+" argument")
			x, y := bv(e, st, args[1].T[0]), bv(e, st, args[2].T[0])
			var r *Term
			switch op {
			case "Add":
				r = tb.Add(x, y)
			case "Sub":
				r = tb.Sub(x, y)
			case "Mul":
				r = tb.Mul(x, y)
			}
			setBV(e, st, args[0].T[0], r)
			k(st, args[0])
		}
	}
	libSpecs["(*math/big.Int).Add"] = arith("Add")
	libSpecs["(*math/big.Int).Sub"] = arith("Sub")
	libSpecs["(*math/big.Int).Mul"] = arith("Mul")
	libSpecs["(*math/big.Int).Neg"] = func(e *Engine, st *State, fn *ssa.Function, args []Val, pos token.Pos, k Kont) {
		bigNil(e, st, args[0], pos, "Neg receiver")
		bigNil(e, st, args[1], pos, "Neg argument")
		setBV(e, st, args[0].T[0], e.tb.Neg(bv(e, st, args[1].T[0])))
		k(st, args[0])
	}
	libSpecs["math/big.NewInt"] = func(e *Engine, st *State, fn *ssa.Function, args []Val, pos token.Pos, k Kont) {
		r := e.newRef(st)
		setBV(e, st, r, args[0].T[0])
		k(st, scalar(r))
	}
	libSpecs["(*math/big.Int).SetInt64"] = func(e *Engine, st *State, fn *ssa.Function, args []Val, pos token.Pos, k Kont) {
		bigNil(e, st, args[0], pos, "SetInt64 receiver")
		setBV(e, st, args[0].T[0], args[1].T[0])
		k(st, args[0])
	}
	libSpecs["(*math/big.Int).SetUint64"] = libSpecs["(*math/big.Int).SetInt64"]
	libSpecs["(*math/big.Int).SetBytes"] = func(e *Engine, st *State, fn *ssa.Function, args []Val, pos token.Pos, k Kont) {
		tb := e.tb
		bigNil(e, st, args[0], pos, "SetBytes receiver")
		b := e.materialiseIfSlice(st, args[1], fn.Signature.Params().At(0).Type())
		row := tb.Select(e.H(st, "E:uint8", SArr2I), b.slArr())
		v := tb.App("bytes2big", SInt, row, b.slOff(), b.slLen())
		e.assume(st, tb.Ge(v, tb.Int(0)))
		e.assume(st, tb.Implies(tb.Eq(b.slLen(), tb.Int(0)), tb.Eq(v, tb.Int(0))))
		e.setGhost(st, "setbyteslen", b.slLen()) // ghost: byte length of the last big integer built from bytes
		setBV(e, st, args[0].T[0], v)
		k(st, args[0])
	}
	libSpecs["(*math/big.Int).Bytes"] = func(e *Engine, st *State, fn *ssa.Function, args []Val, pos token.Pos, k Kont) {
		tb := e.tb
		bigNil(e, st, args[0], pos, "Bytes receiver")
		x := bv(e, st, args[0].T[0])
		ln := tb.App("bigbytelen", SInt, x)
		e.assume(st, tb.Ge(ln, tb.Int(0)))
		e.assume(st, tb.Eq(tb.Eq(ln, tb.Int(0)), tb.Eq(x, tb.Int(0))))
		s := e.allocSlice(st, types.Typ[types.Uint8], ln, ln)
		cl := "E:uint8"
		st.Heap[cl] = tb.Store(e.H(st, cl, SArr2I), s.slArr(), tb.App("bigbytes", SArrI, x))
		// SetBytes(x.Bytes()) == |x|
		e.Assumed["math/big: SetBytes(x.Bytes()) yields |x| (bytes2big is the inverse of bigbytes)"] = true
		e.assume(st, tb.Eq(tb.App("bytes2big", SInt, tb.App("bigbytes", SArrI, x), tb.Int(0), ln), tb.Ite(tb.Lt(x, tb.Int(0)), tb.Neg(x), x)))
		k(st, s)
	}
	libSpecs["(*math/big.Int).BitLen"] = func(e *Engine, st *State, fn *ssa.Function, args []Val, pos token.Pos, k Kont) {
		tb := e.tb
		bigNil(e, st, args[0], pos, "BitLen receiver")
		x := bv(e, st, args[0].T[0])
		r := tb.App("bigbitlen", SInt, x)
		e.assume(st, tb.Ge(r, tb.Int(0)))
		k(st, scalar(r))
	}
	libSpecs["(*math/big.Int).String"] = func(e *Engine, st *State, fn *ssa.Function, args []Val, pos token.Pos, k Kont) {
		// String on a nil *big.Int returns "<nil>"; no panic
		k(st, scalar(e.tb.App("bigstring", SInt, args[0].T[0])))
	}
	libSpecs["(*math/big.Int).IsInt64"] = pureUF("big_IsInt64")
	libSpecs["(*math/big.Int).Int64"] = pureUF("big_Int64")
	libSpecs["(*math/big.Int).Uint64"] = pureUF("big_Uint64")
	// ---- bytes ----
	libSpecs["bytes.Equal"] = func(e *Engine, st *State, fn *ssa.Function, args []Val, pos token.Pos, k Kont) {
		tb := e.tb
		sT := fn.Signature.Params().At(0).Type()
		a := e.materialiseIfSlice(st, args[0], sT)
		b := e.materialiseIfSlice(st, args[1], sT)
		h := e.H(st, "E:uint8", SArr2I)
		ra, rb := tb.Select(h, a.slArr()), tb.Select(h, b.slArr())
		r := tb.Fresh("bytes_eq", SBool)
		i := tb.BoundVar("i", SInt)
		same := tb.Forall([]*Term{i}, tb.Implies(tb.And(tb.Le(tb.Int(0), i), tb.Lt(i, a.slLen())),
			tb.Eq(tb.Select(ra, tb.Idx(a.slOff(), i)), tb.Select(rb, tb.Idx(b.slOff(), i)))))
		e.assume(st, tb.Eq(r, tb.And(tb.Eq(a.slLen(), b.slLen()), same)))
		k(st, scalar(r))
	}
	libSpecs["bytes.NewReader"] = func(e *Engine, st *State, fn *ssa.Function, args []Val, pos token.Pos, k Kont) {
		ref := e.newRef(st)
		if e.Opts.StreamModel && fn.Name() == "NewReader" {
			// the reader's stream is the slice's content, nothing consumed yet
			tb := e.tb
			b := e.materialiseIfSlice(st, args[0], fn.Signature.Params().At(0).Type())
			rv := Val{T: []*Term{tb.Int(e.typeTag(fn.Signature.Results().At(0).Type())), ref}}
			key := readerKey(tb, rv)
			row := tb.Select(e.H(st, "E:uint8", SArr2I), b.slArr())
			i := tb.BoundVar("i", SInt)
			sb := tb.App("stream", SInt, key, i)
			e.assume(st, tb.Forall([]*Term{i}, tb.Implies(tb.And(tb.Le(tb.Int(0), i), tb.Lt(i, b.slLen())), tb.Eq(sb, tb.Select(row, tb.Add(b.slOff(), i)))), []*Term{sb}))
			cur := e.ghostArr(st, "rpos", SArrI)
			e.setGhost(st, "rpos", tb.Store(cur, key, tb.Int(0)))
		}
		k(st, scalar(ref))
	}
	libSpecs["bytes.NewBuffer"] = libSpecs["bytes.NewReader"]
	// (*bytes.Buffer).Bytes / String-free view: a slice that holds the buffer's content; which buffer it came from is kept in the
	// ghost array "bufsrc" (spec: bufferOf(s)); the content itself is not modelled here
	libSpecs["(*bytes.Buffer).Bytes"] = func(e *Engine, st *State, fn *ssa.Function, args []Val, pos token.Pos, k Kont) {
		tb := e.tb
		recv := args[0]
		if px, ok := recv.ann("").(*PtrX); ok && px.Kind == PLocal && st.Cells[px.Cell].Spill != nil {
			recv = scalar(st.Cells[px.Cell].Spill)
		}
		e.oblige(st, "nil", "", pos, tb.Neq(recv.T[0], tb.Int(0)), "method call on nil *bytes.Buffer")
		ln := tb.Fresh("buflen", SInt)
		e.assume(st, tb.Ge(ln, tb.Int(0)))
		s := e.allocSlice(st, types.Typ[types.Uint8], ln, ln)
		cur := e.ghostArr(st, "bufsrc", SArrI)
		e.setGhost(st, "bufsrc", tb.Store(cur, s.slArr(), recv.T[0]))
		k(st, s)
	}
	// buffering wrappers: a new object (never the wrapped reader/writer itself); what it reads ahead or holds back is not modelled
	for _, n := range []string{"bufio.NewReader", "bufio.NewReaderSize", "bufio.NewWriter", "bufio.NewWriterSize", "io.LimitReader", "io.TeeReader", "io.MultiReader", "io.MultiWriter"} {
		libSpecs[n] = func(e *Engine, st *State, fn *ssa.Function, args []Val, pos token.Pos, k Kont) {
			ref := e.newRef(st)
			if _, isI := fn.Signature.Results().At(0).Type().Underlying().(*types.Interface); isI {
				k(st, Val{T: []*Term{e.tb.Fresh("wraptag", SInt), ref}})
				return
			}
			k(st, scalar(ref))
		}
	}
	libSpecs["bytes.Repeat"] = func(e *Engine, st *State, fn *ssa.Function, args []Val, pos token.Pos, k Kont) {
		tb := e.tb
		b := e.materialiseIfSlice(st, args[0], fn.Signature.Params().At(0).Type())
		cnt := args[1].T[0]
		e.oblige(st, "panic", "bytes.Repeat", pos, tb.Ge(cnt, tb.Int(0)), "bytes.Repeat: negative Repeat count")
		n := tb.Mul(b.slLen(), cnt)
		e.oblige(st, "panic", "bytes.Repeat", pos, tb.Le(n, tb.BigInt(maxLen)), "bytes.Repeat: result too large")
		res := e.allocSlice(st, types.Typ[types.Uint8], n, n)
		if c, ok := cnt.ConstInt(); ok && c == 1 {
			h := e.H(st, "E:uint8", SArr2I)
			src := tb.Select(h, b.slArr())
			nr := tb.Fresh("repeat_row", SArrI)
			i := tb.BoundVar("i", SInt)
			e.assume(st, tb.Forall([]*Term{i}, tb.Implies(tb.And(tb.Le(tb.Int(0), i), tb.Lt(i, b.slLen())), tb.Eq(tb.Select(nr, i), tb.Select(src, tb.Idx(b.slOff(), i)))), []*Term{tb.Select(nr, i)}))
			e.setH(st, "E:uint8", tb.Store(h, res.slArr(), nr))
		} else {
			h := e.H(st, "E:uint8", SArr2I)
			e.setH(st, "E:uint8", tb.Store(h, res.slArr(), tb.Fresh("repeat_row", SArrI)))
		}
		k(st, res)
	}
	// sort.Ints(s): afterwards s holds a permutation of its former elements in ascending order. The permutation is an
	// uninterpreted bijection on [0, len(s)) (function and inverse).
	libSpecs["sort.Ints"] = func(e *Engine, st *State, fn *ssa.Function, args []Val, pos token.Pos, k Kont) {
		tb := e.tb
		sT := fn.Signature.Params().At(0).Type()
		s := e.materialiseIfSlice(st, args[0], sT)
		cl := e.elemClass(types.Typ[types.Int], "", Leaves(types.Typ[types.Int])[0])
		h := e.H(st, cl, SArr2I)
		old := tb.Select(h, s.slArr())
		nr := tb.Fresh("sorted_row", SArrI)
		id := tb.Fresh("sortcall", SInt)
		n, off := s.slLen(), s.slOff()
		i := tb.BoundVar("i", SInt)
		j := tb.BoundVar("j", SInt)
		pi := func(x *Term) *Term { return tb.App("sortperm", SInt, id, x) }
		inv := func(x *Term) *Term { return tb.App("sortperminv", SInt, id, x) }
		in := func(x *Term) *Term { return tb.And(tb.Le(tb.Int(0), x), tb.Lt(x, n)) }
		e.assume(st, tb.Forall([]*Term{i}, tb.Implies(in(i), tb.And(tb.Eq(tb.Select(nr, tb.Idx(off, i)), tb.Select(old, tb.Idx(off, pi(i)))), in(pi(i)), tb.Eq(inv(pi(i)), i))),
			[]*Term{tb.Select(nr, tb.Idx(off, i))}, []*Term{pi(i)}))
		e.assume(st, tb.Forall([]*Term{j}, tb.Implies(in(j), tb.And(in(inv(j)), tb.Eq(pi(inv(j)), j))), []*Term{inv(j)}))
		e.assume(st, tb.Forall([]*Term{i, j}, tb.Implies(tb.And(tb.Le(tb.Int(0), i), tb.Le(i, j), tb.Lt(j, n)), tb.Le(tb.Select(nr, tb.Idx(off, i)), tb.Select(nr, tb.Idx(off, j)))),
			[]*Term{tb.Select(nr, tb.Idx(off, i)), tb.Select(nr, tb.Idx(off, j))}))
		// elements outside the slice keep their values
		m := tb.BoundVar("m", SInt)
		e.assume(st, tb.Forall([]*Term{m}, tb.Implies(tb.Or(tb.Lt(m, off), tb.Ge(m, tb.Add(off, n))), tb.Eq(tb.Select(nr, m), tb.Select(old, m))), []*Term{tb.Select(nr, m)}))
		e.setH(st, cl, tb.Store(h, s.slArr(), nr))
		k(st, Val{})
	}
	// slices.Clone(s): nil for nil, otherwise a fresh backing array holding the same element values (a shallow copy).
	libSpecs["slices.Clone"] = func(e *Engine, st *State, fn *ssa.Function, args []Val, pos token.Pos, k Kont) {
		tb := e.tb
		sT, ok := fn.Signature.Params().At(0).Type().Underlying().(*types.Slice)
		if !ok {
			panic(e.unsupported("slices.Clone of " + fn.Signature.Params().At(0).Type().String()))
		}
		elT := sT.Elem()
		s := e.materialiseIfSlice(st, args[0], sT)
		res := e.allocSlice(st, elT, s.slLen(), s.slLen())
		for _, l := range Leaves(elT) {
			cl := e.elemClass(elT, "", l)
			h := e.H(st, cl, ArrOf(ArrOf(l.Sort)))
			src := tb.Select(h, s.slArr())
			nr := tb.Fresh("clone_row", ArrOf(l.Sort))
			i := tb.BoundVar("i", SInt)
			e.assume(st, tb.Forall([]*Term{i}, tb.Implies(tb.And(tb.Le(tb.Int(0), i), tb.Lt(i, s.slLen())), tb.Eq(tb.Select(nr, i), tb.Select(src, tb.Idx(s.slOff(), i)))), []*Term{tb.Select(nr, i)}))
			e.setH(st, cl, tb.Store(h, res.slArr(), nr))
		}
		isNil := tb.Eq(s.slArr(), tb.Int(0))
		out := Val{T: make([]*Term, 4)}
		for j := range out.T {
			out.T[j] = tb.Ite(isNil, tb.Int(0), res.T[j])
		}
		k(st, out)
	}
	// math.Ceil(float64(n)/c): the only float expression on the codec paths (mask length of sparse signatures).
	libSpecs["math.Ceil"] = func(e *Engine, st *State, fn *ssa.Function, args []Val, pos token.Pos, k Kont) {
		a := args[0].T[0]
		if a.Op == "app" && a.Name == "fdiv" && a.Args[0].Op == "app" && a.Args[0].Name == "int2float" && a.Args[1].Op == "app" && (a.Args[1].Name == "int2float" || a.Args[1].Name == "floatconst") {
			k(st, scalar(e.tb.App("ceildiv", SInt, a.Args[0].Args[0], a.Args[1].Args[0])))
			return
		}
		k(st, scalar(e.tb.App("lib_math_Ceil", SInt, a)))
	}
	libSpecs["math.Log10"] = pureUF("math_Log10")
	libSpecs["math.Log2"] = pureUF("math_Log2")
	libSpecs["math.Floor"] = pureUF("math_Floor")
	libSpecs["strconv.Itoa"] = pureUF("strconv_Itoa")
	libSpecs["strconv.FormatInt"] = pureUF("strconv_FormatInt")
	libSpecs["strconv.FormatUint"] = pureUF("strconv_FormatUint")
	// ---- sync: no concurrency semantics; lock state tracked in ghost "held" ----
	lockOp := func(acquire bool, try bool) LibFn {
		return func(e *Engine, st *State, fn *ssa.Function, args []Val, pos token.Pos, k Kont) {
			tb := e.tb
			e.Assumed["mutexes: sequential model (ghost held flag), no blocking semantics"] = true
			ref := e.mutexRef(args[0])
			cur, ok := st.Ghost["held"]
			if !ok {
				cur = tb.Const("G0!held", SArrB)
			}
			if acquire {
				if try {
					got := tb.Fresh("trylock", SBool)
					if len(args) >= 2 && len(args[1].T) == 2 {
						// TryLockCtx fails only because the context is done: its Err() is non-nil afterwards
						cd := e.ghostArr(st, "ctxdone", SArrB)
						key := tb.App("ctxkey", SInt, args[1].ifTag(), args[1].ifVal())
						e.setGhost(st, "ctxdone", tb.Ite(got, cd, tb.Store(cd, key, tb.True())))
					}
					st.Ghost["held"] = tb.Ite(got, tb.Store(cur, ref, tb.True()), cur)
					if st.Disc != nil {
						st.Disc.Ghosts["held"] = true
					}
					k(st, scalar(got))
					return
				}
				st.Ghost["held"] = tb.Store(cur, ref, tb.True())
			} else {
				e.oblige(st, "unlock", "", pos, tb.Select(cur, ref), "unlock of a mutex that is not held")
				st.Ghost["held"] = tb.Store(cur, ref, tb.False())
			}
			if st.Disc != nil {
				st.Disc.Ghosts["held"] = true
			}
			k(st, e.havocResults(st, fn.Signature, "sync"))
		}
	}
	for _, n := range []string{"(*sync.Mutex).Lock", "(*sync.RWMutex).Lock", "(*sync.RWMutex).RLock", "(*polycry.pt/poly-go/sync.Mutex).Lock"} {
		libSpecs[n] = lockOp(true, false)
	}
	for _, n := range []string{"(*sync.Mutex).Unlock", "(*sync.RWMutex).Unlock", "(*sync.RWMutex).RUnlock", "(*polycry.pt/poly-go/sync.Mutex).Unlock"} {
		libSpecs[n] = lockOp(false, false)
	}
	for _, n := range []string{"(*sync.Mutex).TryLock", "(*polycry.pt/poly-go/sync.Mutex).TryLock", "(*polycry.pt/poly-go/sync.Mutex).TryLockCtx"} {
		libSpecs[n] = lockOp(true, true)
	}
}

// mutexRef names a mutex: the ghost lock state "held" is indexed by it.
func (e *Engine) mutexRef(m Val) *Term {
	tb := e.tb
	if px, ok := m.ann("").(*PtrX); ok {
		switch px.Kind {
		case PField:
			return tb.App("mtx_"+sanitize(typeKey(px.Root)+px.Path), SInt, px.Ref)
		case PGlobal:
			return tb.App("mtxg_"+sanitize(px.Glob.Name()+px.Path), SInt)
		default:
			return tb.Fresh("mtx_local", SInt)
		}
	}
	return m.T[0]
}

// pureUF models an external function as an uninterpreted, total, non-panicking function of its (flattened) arguments.
func pureUF(name string) LibFn {
	return func(e *Engine, st *State, fn *ssa.Function, args []Val, pos token.Pos, k Kont) {
		tb := e.tb
		var flat []*Term
		sig := fn.Signature
		names, typs := sigParams(sig, nil)
		_ = names
		for i, a := range args {
			if i < len(typs) {
				a = e.materialiseIfSlice(st, a, typs[i])
				a = e.flatten(st, typs[i], a)
			}
			flat = append(flat, intTerms(tb, a.T)...)
		}
		res := sig.Results()
		mk := func(T types.Type, idx int) Val {
			ls := Leaves(T)
			out := Val{T: make([]*Term, len(ls))}
			for i, l := range ls {
				out.T[i] = tb.App("lib_"+name+"_"+string(rune('0'+idx))+sanitize(l.Path), l.Sort, flat...)
			}
			e.wfVal(st, T, out)
			return out
		}
		switch res.Len() {
		case 0:
			k(st, Val{})
		case 1:
			k(st, mk(res.At(0).Type(), 0))
		default:
			out := Val{Elems: make([]Val, res.Len())}
			for i := 0; i < res.Len(); i++ {
				out.Elems[i] = mk(res.At(i).Type(), i)
			}
			k(st, out)
		}
	}
}

func (e *Engine) errTag() int64 {
	return e.typeTag(types.NewPointer(types.NewNamed(types.NewTypeName(token.NoPos, nil, "govcError", nil), types.NewStruct(nil, nil), nil)))
}

var errTagCache int64

// newError returns a fresh non-nil error value.
func (e *Engine) newError(st *State, hint string) Val {
	tb := e.tb
	r := e.newRef(st)
	if errTagCache == 0 {
		errTagCache = e.errTag()
	}
	out := Val{T: []*Term{tb.Int(errTagCache), r}}
	// a freshly created error is its own cause
	e.assumeQuiet(st, tb.And(tb.Eq(tb.App("errcause_tag", SInt, out.ifTag(), out.ifVal()), out.ifTag()), tb.Eq(tb.App("errcause_val", SInt, out.ifTag(), out.ifVal()), out.ifVal())))
	return out
}

// ghostArgs flattens a value the way ghost-function arguments are flattened in specs (slice capacities dropped).
func (e *Engine) ghostArgs(st *State, T types.Type, v Val) []*Term {
	if px, ok := v.ann("").(*PtrX); ok {
		if px.Kind == PLocal {
			v = e.plainPtr(st, v)
			if _, still := v.ann("").(*PtrX); !still {
				return []*Term{v.T[0]}
			}
		}
		// interior pointers are identified by (object, field path)
		switch px.Kind {
		case PField:
			if px.Path == "" {
				return []*Term{px.Ref}
			}
			return []*Term{e.tb.App("iptr_"+typeKey(px.Root)+px.Path, SInt, px.Ref)}
		case PElem:
			return []*Term{e.tb.App("eptr_"+typeKey(px.Root)+px.Path, SInt, px.Ref, px.Idx)}
		}
	}
	v = e.flatten(st, T, v)
	ls := Leaves(T)
	var out []*Term
	for i, l := range ls {
		if l.Kind == LKSlCap {
			continue
		}
		t := v.T[i]
		if t.Sort == SBool {
			t = e.tb.Ite(t, e.tb.Int(1), e.tb.Int(0))
		}
		out = append(out, t)
	}
	return out
}
