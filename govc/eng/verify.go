package eng

import (
	"fmt"
	"os"
	"go/token"
	"go/types"
	"sort"
	"strings"

	"golang.org/x/tools/go/ssa"
)

// VerifyFunc generates all obligations of one function against its contract
// (or, without contract, the safety obligations only).
func (e *Engine) VerifyFunc(full string) *FuncResult {
	fn := e.FindFunc(full)
	fr := &FuncResult{Key: full, Fn: fn, oblNames: map[string]int{}}
	e.Results = append(e.Results, fr)
	if fn == nil {
		fr.Errors = append(fr.Errors, "function not found: "+full)
		return fr
	}
	ct := e.Specs.Contracts[full]
	fr.Contract = ct
	if ct != nil {
		ct.Used = true
	}
	e.cur = fr
	// "tokenmodel" in the contract: this function is verified with the value-token model of the primitive codec
	e.Opts.TokenModel = ct != nil && ct.TokenModel
	e.pathCount = 0
	e.stepCount = 0
	e.copies = nil
	defer func() { e.cur = nil }()
	tb := e.tb

	st := &State{Heap: map[string]*Term{}, pcSeen: map[int]bool{}, Cells: map[int]cellContent{}, Iters: map[int]iterState{}, Ghost: map[string]*Term{}, Written: map[string]bool{}, Views: map[int]viewOrigin{}}
	st.Alloc = tb.Const("A0", SInt)
	e.assume(st, tb.Ge(st.Alloc, tb.Int(1)))

	func() {
		defer func() {
			if r := recover(); r != nil {
				switch x := r.(type) {
				case unsupportedErr:
					e.genError("out of subset: %s", x.msg)
				case pathAbort:
					if x.reason != "" {
						e.genError("%s", x.reason)
					}
				case specErr:
					e.genError("spec error: %s", x.msg)
				default:
					// an internal error of the generator must not take the whole check down: report it against this function
					e.genError("internal generator error: %v", r)
					if os.Getenv("GOVC_DEBUG") != "" {
						panic(r)
					}
				}
			}
		}()
		// parameters
		sig := fn.Signature
		names, typs := sigParams(sig, nil)
		var args []Val
		env := map[string]specBind{}
		for i := range names {
			v := e.freshVal(st, typs[i], "p_"+names[i])
			args = append(args, v)
			env[names[i]] = specBind{v, typs[i]}
		}
		addPositional(env, names, sig, "arg")
		if len(fn.FreeVars) > 0 {
			// closure under contract: free variables are pointers to captured variables; model as fresh heap cells
			for _, fv := range fn.FreeVars {
				v := e.freshVal(st, fv.Type(), "fv_"+fv.Name())
				e.assume(st, tb.Neq(v.T[0], tb.Int(0)))
				env[fv.Name()] = specBind{v, fv.Type()}
			}
		}
		if sig.Recv() != nil {
			if _, isPtr := sig.Recv().Type().Underlying().(*types.Pointer); isPtr {
				e.assume(st, tb.Neq(args[0].T[0], tb.Int(0)))
			}
		}
		if ct == nil {
			// safety-only verification of a function without contract: pointer and interface parameters are present (non-nil)
			for i := range names {
				switch typs[i].Underlying().(type) {
				case *types.Pointer, *types.Interface:
					e.assume(st, tb.Neq(args[i].T[0], tb.Int(0)))
					e.Assumed["functions verified without contract (safety only): pointer/interface parameters are non-nil"] = true
				}
			}
		}
		var pkg *types.Package
		if ct != nil {
			pkg = e.specPkg(ct)
		} else if p := e.Pkgs[funcPkgPath(fn)]; p != nil {
			pkg = p.Types
		}
		e.entryHeap = snapshot(st.Heap)
		e.entryAlloc = st.Alloc
		pre := &specCtx{e: e, st: st, heap: st.Heap, oldHeap: st.Heap, oldAlloc: st.Alloc, env: env, pkg: pkg}
		// global invariants and axioms
		isInit := fn.Name() == "init" && fn.Synthetic != ""
		if isInit {
			// the package initializer establishes the global invariants of its package
			if g, ok := fn.Pkg.Members["init$guard"].(*ssa.Global); ok {
				st.Heap[globClass(g, "", Leaves(types.Typ[types.Bool])[0])] = tb.False()
			}
			e.initPkg = funcPkgPath(fn)
			defer func() { e.initPkg = "" }()
		} else {
			e.assumeGlobals(st, pre)
		}
		assumeRequires := func(st *State, env map[string]specBind) {
			if ct == nil {
				return
			}
			pc := &specCtx{e: e, st: st, heap: st.Heap, oldHeap: st.Heap, oldAlloc: st.Alloc, env: env, pkg: pkg}
			for _, rq := range ct.Requires {
				e.assume(st, e.evalClause(pc, rq))
			}
			for _, as := range ct.Assumes {
				e.Assumed["explicit assumption in contract of "+full+": "+as.Src] = true
				e.assume(st, e.evalClause(pc, as))
			}
		}
		var bindings []Val
		for _, fv := range fn.FreeVars {
			bindings = append(bindings, env[fv.Name()].V)
		}
		// parameters of sealed interface types: one run per implementation (the dynamic type is then concrete everywhere)
		type choice struct {
			idx int
			T   types.Type
		}
		var sealedParams []int
		for i := range names {
			if _, isI := typs[i].Underlying().(*types.Interface); isI && e.Specs.Sealed[ifaceName(typs[i])] {
				sealedParams = append(sealedParams, i)
			}
		}
		var runWith func(k int, st *State, args []Val, env map[string]specBind)
		runWith = func(k int, st *State, args []Val, env map[string]specBind) {
			if k == len(sealedParams) {
				e.branch(func() {
					// the precondition is evaluated per variant (dynamic types of sealed parameters are concrete here)
					assumeRequires(st, env)
					e.canary(st, "pre.sat", fn.Pos())
					e.entryHeap = snapshot(st.Heap)
					e.entryAlloc = st.Alloc
					st.Written = map[string]bool{}
					e.runFunction(st, fn, args, bindings, func(st2 *State, res Val) {
						e.atReturn(st2, fn, ct, env, res, pkg)
					})
				})
				return
			}
			i := sealedParams[k]
			impls := e.implementers(typs[i])
			e.Assumed["closed world: interface "+ifaceName(typs[i])+" is implemented only by "+implNames(impls)] = true
			for _, T := range impls {
				st2 := st.clone()
				a2 := append([]Val(nil), args...)
				env2 := map[string]specBind{}
				for kk, vv := range env {
					env2[kk] = vv
				}
				v := args[i]
				tagc := tb.Int(e.typeTag(T))
				nv := Val{T: []*Term{tagc, v.T[1]}, Ann: map[string]Ann{"": &IfaceX{Dyn: T}}}
				e.branch(func() {
					e.assume(st2, tb.Eq(v.T[0], tagc))
					if _, isPtr := T.Underlying().(*types.Pointer); isPtr {
						e.assume(st2, tb.Neq(v.T[1], tb.Int(0)))
					}
					a2[i] = nv
					env2[names[i]] = specBind{nv, typs[i]}
					if off := len(names) - sig.Params().Len(); i >= off {
						if al := fmt.Sprintf("arg%d", i-off); al != names[i] {
							env2[al] = env2[names[i]]
						}
					}
					runWith(k+1, st2, a2, env2)
				})
			}
		}
		runWith(0, st, args, env)
	}()
	if ct != nil {
		for i := range ct.CallSites {
			if ct.CallSites[i].Hits == 0 && len(fr.Errors) == 0 {
				fr.Errors = append(fr.Errors, "callsite clause for "+ct.CallSites[i].Callee+" never applied (no such call on any path): vacuous")
			}
			ct.CallSites[i].Hits = 0
		}
	}
	return fr
}

// canary records a check that must NOT be provable (reachability / satisfiability).
func (e *Engine) canary(st *State, kind string, pos token.Pos) {
	if e.logOff > 0 || e.cur == nil {
		return
	}
	fr := e.cur
	base := fr.Key + "#" + kind
	fr.oblNames[base]++
	name := base
	if n := fr.oblNames[base]; n > 1 {
		name = fmt.Sprintf("%s~%d", base, n)
	}
	o := &Obl{Name: name, Fn: fr.Key, Kind: kind, Pos: posStr(e.Fset, pos), PC: append([]*Term(nil), st.PC...), Goal: e.tb.False(), Canary: true, Seq: len(fr.Obls)}
	fr.Obls = append(fr.Obls, o)
	fr.Log = append(fr.Log, LogEntry{Kind: "check", T: e.tb.False(), Obl: o})
}

func (e *Engine) assumeGlobals(st *State, c *specCtx) {
	for _, g := range e.Specs.Globals {
		gc := *c
		gc.pkg = e.Pkgs[g.Pkg].Types
		gc.env = map[string]specBind{}
		e.assume(st, e.evalClause(&gc, g.Clause))
	}
	for _, a := range e.Specs.EnvAssumes {
		ac := *c
		ac.pkg = e.Pkgs[a.Pkg].Types
		ac.env = map[string]specBind{}
		e.Assumed["start-up configuration assumed ("+a.Pkg+"): "+a.Clause.Src] = true
		e.assume(st, e.evalClause(&ac, a.Clause))
	}
	for _, a := range e.Specs.Axioms {
		ac := *c
		ac.pkg = e.Pkgs[a.Pkg].Types
		ac.env = map[string]specBind{}
		e.Assumed["axiom: "+a.Clause.Src] = true
		e.assume(st, e.evalClause(&ac, a.Clause))
	}
}

func (e *Engine) atReturn(st *State, fn *ssa.Function, ct *Contract, env map[string]specBind, res Val, pkg *types.Package) {
	fr := e.cur
	fr.Returns++
	// results that point to lazily allocated objects: move them into the heap so that contracts can talk about them
	if res.Elems != nil {
		els := append([]Val(nil), res.Elems...)
		for i := range els {
			els[i] = e.plainPtr(st, els[i])
		}
		res = Val{Elems: els}
	} else if len(res.T) > 0 {
		res = e.plainPtr(st, res)
	}
	e.canary(st, "cover.return", fn.Pos())
	if e.initPkg != "" {
		gc := &specCtx{e: e, st: st, heap: st.Heap, oldHeap: e.entryHeap, oldAlloc: e.entryAlloc, env: map[string]specBind{}, pkg: pkg}
		n := 0
		for _, g := range e.Specs.Globals {
			if g.Pkg != e.initPkg {
				continue
			}
			n++
			e.oblige(st, "post", fmt.Sprintf("global.%d", n), fn.Pos(), e.evalClause(gc, g.Clause), "global invariant established by package initialisation: "+g.Clause.Src)
		}
		e.pathEnd()
		return
	}
	if ct == nil {
		e.pathEnd()
		return
	}
	sig := fn.Signature
	rn := resultNames(sig, ct)
	postEnv := map[string]specBind{}
	for k, v := range env {
		postEnv[k] = v
	}
	switch len(rn) {
	case 0:
	case 1:
		rv := res
		postEnv[rn[0]] = specBind{rv, sig.Results().At(0).Type()}
		postEnv["result"] = specBind{rv, sig.Results().At(0).Type()}
	default:
		for i, n := range rn {
			postEnv[n] = specBind{res.Elems[i], sig.Results().At(i).Type()}
			postEnv[fmt.Sprintf("result%d", i)] = specBind{res.Elems[i], sig.Results().At(i).Type()}
		}
	}
	// results that are local slices must be materialised to be talked about
	for k, b := range postEnv {
		if b.T != nil {
			if _, isSl := b.T.Underlying().(*types.Slice); isSl {
				b.V = e.materialiseIfSlice(st, b.V, b.T)
				postEnv[k] = b
			}
		}
	}
	post := &specCtx{e: e, st: st, heap: st.Heap, oldHeap: e.entryHeap, oldAlloc: e.entryAlloc, env: postEnv, pkg: pkg}
	for i, en := range ct.Ensures {
		name := fmt.Sprintf("%d", i+1)
		if en.Name != "" {
			name = en.Name
		}
		if en.Trusted {
			e.Assumed["trusted postcondition of "+fr.Key+" (assumed at call sites, not checked): "+en.Src] = true
			continue
		}
		g := e.evalClause(post, en)
		e.oblige(st, "post", name, fn.Pos(), g, "postcondition: "+en.Src)
	}
	// frame
	if ct.NoFrame {
		e.Assumed["frame of "+fr.Key+" is assumed, not checked (noframe): it is taken to write only objects it allocates and the locations it lists"] = true
	}
	if !ct.ModAny && !ct.NoFrame {
		prec := &specCtx{e: e, st: st, heap: e.entryHeap, oldHeap: e.entryHeap, oldAlloc: e.entryAlloc, env: env, pkg: pkg}
		var locs []Loc
		for _, m := range ct.Modifies {
			locs = append(locs, e.evalLocsClause(prec, m)...)
		}
		for _, cl := range sortedKeys(st.Written) {
			if strings.HasPrefix(cl, "Box:") {
				continue
			}
			h1 := st.Heap[cl]
			h0 := e.heapIn(e.entryHeap, cl)
			g := e.frameGoal(h0, h1, cl, locs, e.entryAlloc)
			e.oblige(st, "frame", cl, fn.Pos(), g, "only declared locations of "+cl+" are modified")
		}
	}
	e.pathEnd()
}

// Summary helpers

func (fr *FuncResult) Counts() (total, canaries int) {
	for _, o := range fr.Obls {
		if o.Canary {
			canaries++
		} else {
			total++
		}
	}
	return
}

func (e *Engine) AssumedList() []string {
	var out []string
	for k := range e.Assumed {
		out = append(out, k)
	}
	sort.Strings(out)
	return out
}

// ValueTerms lists the terms whose model values are useful for building a
// concrete input: the values read from input streams on the path.
func (o *Obl) ValueTerms() []*Term {
	var out []*Term
	seen := map[int]bool{}
	for _, ev := range o.Trace {
		for _, t := range []*Term{ev.Val, ev.Len} {
			if t != nil && !t.Bound && !seen[t.ID] && t.Op != "int" {
				seen[t.ID] = true
				out = append(out, t)
			}
		}
	}
	return out
}

// implementers lists the named types (and pointers to them) of the loaded repository packages that implement iface.
func (e *Engine) implementers(iface types.Type) []types.Type {
	it := iface.Underlying().(*types.Interface)
	var out []types.Type
	var paths []string
	for p := range e.Pkgs {
		paths = append(paths, p)
	}
	sort.Strings(paths)
	for _, p := range paths {
		pk := e.Pkgs[p]
		if !isRepoPkg(pk.Types) {
			continue
		}
		sc := pk.Types.Scope()
		for _, n := range sc.Names() {
			tn, ok := sc.Lookup(n).(*types.TypeName)
			if !ok || tn.IsAlias() {
				continue
			}
			T := tn.Type()
			if _, isI := T.Underlying().(*types.Interface); isI {
				continue
			}
			if strings.HasSuffix(e.Fset.Position(tn.Pos()).Filename, "_test.go") {
				continue
			}
			if types.Implements(T, it) {
				out = append(out, T)
			} else if types.Implements(types.NewPointer(T), it) {
				out = append(out, types.NewPointer(T))
			}
		}
	}
	return out
}

func implNames(ts []types.Type) string {
	var ns []string
	for _, t := range ts {
		ns = append(ns, canonType(t))
	}
	return strings.Join(ns, ", ")
}
