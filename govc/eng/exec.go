package eng

import (
	"fmt"
	"os"
	"strings"
	"go/constant"
	"go/token"
	"go/types"
	"math/big"

	"golang.org/x/tools/go/ssa"
)

// Kont is a continuation receiving the state and the results of a call.
type Kont func(st *State, res Val)

type pathAbort struct{ reason string }

// branch runs f as one alternative of a fork: push/pop in the script, recover from out-of-subset panics.
func (e *Engine) branch(f func()) {
	e.logPush()
	defer e.logPop()
	defer func() {
		if r := recover(); r != nil {
			switch x := r.(type) {
			case unsupportedErr:
				e.genError("out of subset: %s", x.msg)
			case pathAbort:
				if x.reason != "" {
					e.genError("%s", x.reason)
				}
			default:
				if os.Getenv("GOVC_DEBUG") != "" {
					panic(r)
				}
				e.genError("internal generator error: %v", r)
			}
		}
	}()
	f()
}

func (e *Engine) pathEnd() {
	if e.logOff == 0 && e.cur != nil {
		e.cur.Paths++
		e.pathCount++
		if e.pathCount > e.Opts.MaxPaths {
			panic(pathAbort{fmt.Sprintf("outside reach: more than %d paths", e.Opts.MaxPaths)})
		}
	}
}

// get returns the symbolic value of an SSA value in the top frame.
func (e *Engine) get(st *State, v ssa.Value) Val {
	fr := st.top()
	switch x := v.(type) {
	case *ssa.Const:
		return e.constVal(st, x)
	case *ssa.Global:
		return Val{T: []*Term{e.tb.Int(-1)}, Ann: map[string]Ann{"": &PtrX{Kind: PGlobal, Glob: x, Root: x.Type().(*types.Pointer).Elem(), Elem: -1}}}
	case *ssa.Function:
		return Val{T: []*Term{e.tb.Int(e.funcID(x))}, Ann: map[string]Ann{"": &FuncX{Fn: x}}}
	case *ssa.Builtin:
		panic(e.unsupported("builtin as value: " + x.Name()))
	}
	r, ok := fr.Regs[v]
	if !ok {
		panic(fmt.Sprintf("internal: no value for %s (%s) in %s", v.Name(), v, fr.Fn))
	}
	return r
}

var funcIDs = map[*ssa.Function]int64{}

func (e *Engine) funcID(f *ssa.Function) int64 {
	if id, ok := funcIDs[f]; ok {
		return id
	}
	id := int64(len(funcIDs) + 1)
	funcIDs[f] = id
	return id
}

func (e *Engine) constVal(st *State, c *ssa.Const) Val {
	T := c.Type()
	tb := e.tb
	if c.Value == nil {
		// zero value of T (nil pointer, nil slice, zero struct ...)
		if b, ok := T.Underlying().(*types.Basic); ok && b.Kind() == types.UntypedNil {
			return scalar(tb.Int(0))
		}
		return e.zeroVal(T)
	}
	switch c.Value.Kind() {
	case constant.Bool:
		return scalar(tb.Bool(constant.BoolVal(c.Value)))
	case constant.Int:
		bi, ok := new(big.Int).SetString(c.Value.ExactString(), 10)
		if !ok {
			panic("bad int constant " + c.Value.ExactString())
		}
		if b, ok := T.Underlying().(*types.Basic); ok && b.Info()&types.IsFloat != 0 {
			return scalar(tb.App("floatconst", SInt, tb.BigInt(bi)))
		}
		return scalar(tb.BigInt(bi))
	case constant.String:
		return scalar(tb.Int(e.strID(constant.StringVal(c.Value))))
	case constant.Float:
		if iv := constant.ToInt(c.Value); iv.Kind() == constant.Int {
			if bi, ok := new(big.Int).SetString(iv.ExactString(), 10); ok {
				return scalar(tb.App("floatconst", SInt, tb.BigInt(bi)))
			}
		}
		return scalar(tb.App("floatlit_"+sanitize(c.Value.ExactString()), SInt))
	}
	panic(e.unsupported("constant kind " + c.Value.Kind().String()))
}

// runFunction executes fn symbolically with args; k receives the result value
// (tuple results as Val{Elems}).
func (e *Engine) runFunction(st *State, fn *ssa.Function, args []Val, bindings []Val, k Kont) {
	if len(fn.Blocks) == 0 {
		panic(e.unsupported("function without body: " + fn.String()))
	}
	if len(st.Frames) > e.Opts.MaxInline {
		panic(e.unsupported("inline depth exceeded at " + fn.String()))
	}
	fr := &Frame{Fn: fn, Regs: map[ssa.Value]Val{}, Cells: map[*ssa.Alloc]int{}, Active: map[*ssa.BasicBlock]*LoopCtx{}, Params: args}
	fr.Contract = e.contractOf(fn)
	fr.EntryAlloc = st.Alloc
	fr.EntryHeap = snapshot(st.Heap)
	for i, p := range fn.Params {
		fr.Regs[p] = args[i]
	}
	for i, fv := range fn.FreeVars {
		fr.Regs[fv] = bindings[i]
	}
	st.Frames = append(st.Frames, fr)
	depth := len(st.Frames)
	e.runBlock(st, fn.Blocks[0], nil, func(st2 *State, res Val) {
		if len(st2.Frames) != depth {
			panic("internal: frame imbalance")
		}
		st2.Frames = st2.Frames[:depth-1]
		k(st2, res)
	})
}

// runBlock executes block b (entered from prev) and everything after it on this path.
func (e *Engine) runBlock(st *State, b *ssa.BasicBlock, prev *ssa.BasicBlock, ret Kont) {
	fr := st.top()
	if d := st.Disc; d != nil && d.Depth == len(st.Frames) && d.Loop != nil {
		if !d.Loop.Blocks[b] || (b == d.Loop.Header && prev != nil && d.Loop.Blocks[prev] && fr.Active[b] != nil) {
			return // left the loop or closed the back edge: discovery path ends
		}
	}
	if li := e.loopsOf(fr.Fn).ByHeader[b]; li != nil {
		if ctx := fr.Active[b]; ctx != nil {
			if e.loopBackEdge(st, li, ctx, b, prev, ret) {
				return
			}
		} else {
			if e.loopEnter(st, li, b, prev, ret) {
				return
			}
		}
	}
	e.runInstrs(st, b, 0, prev, ret)
}

func (e *Engine) runInstrs(st *State, b *ssa.BasicBlock, i int, prev *ssa.BasicBlock, ret Kont) {
	for ; i < len(b.Instrs); i++ {
		in := b.Instrs[i]
		e.stepCount++
		if e.stepCount > 3000000 {
			panic(pathAbort{"outside reach: step budget exhausted"})
		}
		switch x := in.(type) {
		case *ssa.If:
			c := e.get(st, x.Cond).T[0]
			if c.IsTrue() {
				e.runBlock(st, b.Succs[0], b, ret)
				return
			}
			if c.IsFalse() {
				e.runBlock(st, b.Succs[1], b, ret)
				return
			}
			// the condition (or its negation) is already part of the path condition
			if st.knows(e.tb, c) {
				e.runBlock(st, b.Succs[0], b, ret)
				return
			}
			if st.knows(e.tb, e.tb.Not(c)) {
				e.runBlock(st, b.Succs[1], b, ret)
				return
			}
			if os.Getenv("GOVC_TRACE") != "" && e.logOff == 0 {
				cs := c.String()
				if len(cs) > 120 {
					cs = cs[:120]
				}
				fmt.Fprintf(os.Stderr, "FORK depth=%d %s block %d (%s) cond=%s\n", len(st.Frames), st.top().Fn.Name(), b.Index, posStr(e.Fset, x.Cond.Pos()), cs)
			}
			st2 := st.clone()
			e.branch(func() {
				e.assume(st2, c)
				e.runBlock(st2, b.Succs[0], b, ret)
			})
			e.branch(func() {
				e.assume(st, e.tb.Not(c))
				e.runBlock(st, b.Succs[1], b, ret)
			})
			return
		case *ssa.Jump:
			e.runBlock(st, b.Succs[0], b, ret)
			return
		case *ssa.Return:
			var res Val
			switch len(x.Results) {
			case 0:
			case 1:
				res = e.get(st, x.Results[0])
			default:
				res = Val{Elems: make([]Val, len(x.Results))}
				for j, r := range x.Results {
					res.Elems[j] = e.get(st, r)
				}
			}
			ret(st, res)
			return
		case *ssa.Panic:
			e.doPanic(st, x.Pos(), "explicit panic", "panic")
			return
		case *ssa.Call:
			bb, ii := b, i
			depth := len(st.Frames)
			e.doCall(st, x, x.Common(), func(st2 *State, res Val) {
				if len(st2.Frames) != depth {
					panic("internal: frame imbalance after call")
				}
				st2.top().Regs[x] = res
				e.runInstrs(st2, bb, ii+1, prev, ret)
			})
			return
		case *ssa.RunDefers:
			bb, ii := b, i
			e.runDefers(st, func(st2 *State) {
				e.runInstrs(st2, bb, ii+1, prev, ret)
			})
			return
		case *ssa.Defer:
			fr := st.top()
			d := deferred{call: x.Common(), pos: x.Pos()}
			if !x.Common().IsInvoke() {
				if _, isB := x.Common().Value.(*ssa.Builtin); !isB {
					d.fn = e.get(st, x.Common().Value)
				}
			} else {
				d.fn = e.get(st, x.Common().Value)
			}
			for _, a := range x.Common().Args {
				d.args = append(d.args, e.get(st, a))
			}
			fr.Defers = append(fr.Defers, d)
		case *ssa.Go:
			e.doGo(st, x)
		default:
			e.step(st, in, prev)
		}
	}
	panic("internal: block without terminator")
}

// doPanic handles reaching a panic site: an obligation that the site is unreachable.
func (e *Engine) doPanic(st *State, pos token.Pos, desc, kind string) {
	goal := e.tb.False()
	// documented panics ("panics <cond>" in the contract of the function under verification): an explicit panic is
	// allowed where the condition holds (evaluated over the function's parameters in the current state)
	if kind == "panic" && e.cur != nil && e.cur.Contract != nil && len(e.cur.Contract.Panics) > 0 && len(st.Frames) > 0 {
		fr := st.Frames[0]
		env := map[string]specBind{}
		names, typs := sigParams(fr.Fn.Signature, nil)
		for i := range names {
			if i < len(fr.Params) {
				env[names[i]] = specBind{fr.Params[i], typs[i]}
			}
		}
		sc := &specCtx{e: e, st: st, heap: st.Heap, oldHeap: e.entryHeap, oldAlloc: e.entryAlloc, env: env, pkg: e.specPkg(e.cur.Contract)}
		var alts []*Term
		for _, cl := range e.cur.Contract.Panics {
			e.Assumed["documented panic of "+e.cur.Key+" (allowed, not a violation): "+cl.Src] = true
			alts = append(alts, e.evalClause(sc, cl))
		}
		goal = e.tb.Or(alts...)
	}
	e.oblige(st, kind, "", pos, goal, desc)
	e.pathEnd()
}

func (e *Engine) runDefers(st *State, k func(st *State)) {
	fr := st.top()
	if len(fr.Defers) == 0 {
		k(st)
		return
	}
	d := fr.Defers[len(fr.Defers)-1]
	fr.Defers = fr.Defers[:len(fr.Defers)-1]
	depth := len(st.Frames)
	e.callValue(st, d.call, d.fn, d.args, d.pos, func(st2 *State, _ Val) {
		if len(st2.Frames) != depth {
			panic("internal: frame imbalance after deferred call")
		}
		e.runDefers(st2, k)
	})
}

// step executes a non-control instruction.
func (e *Engine) step(st *State, in ssa.Instruction, prev *ssa.BasicBlock) {
	fr := st.top()
	tb := e.tb
	switch x := in.(type) {
	case *ssa.DebugRef:
	case *ssa.Alloc:
		T := x.Type().(*types.Pointer).Elem()
		// objects are allocated lazily: they live Go-side until their address escapes into the heap,
		// a function under contract or the result (then they are moved into the heap, see spillObject)
		if !isBigInt(T) {
			e.cellCtr++
			id := e.cellCtr
			st.Cells[id] = cellContent{V: e.zeroVal(T), Typ: T}
			fr.Cells[x] = id
			fr.Regs[x] = Val{T: []*Term{tb.Int(-2)}, Ann: map[string]Ann{"": &PtrX{Kind: PLocal, Cell: id, Elem: -1, PType: T}}}
			return
		}
		r := e.newObject(st, T)
		fr.Regs[x] = scalar(r)
	case *ssa.Store:
		T := x.Addr.Type().Underlying().(*types.Pointer).Elem()
		p := e.get(st, x.Addr)
		e.nilCheck(st, p, x.Pos(), "store through nil pointer")
		e.store(st, p, T, e.get(st, x.Val))
	case *ssa.UnOp:
		fr.Regs[x] = e.unop(st, x)
	case *ssa.BinOp:
		shiftCountType = x.Y.Type()
		fr.Regs[x] = e.binop(st, x.Op, e.get(st, x.X), e.get(st, x.Y), x.X.Type(), x.Type(), x.Pos())
		shiftCountType = nil
	case *ssa.FieldAddr:
		p := e.get(st, x.X)
		ST := x.X.Type().Underlying().(*types.Pointer).Elem()
		e.nilCheck(st, p, x.Pos(), "field access through nil pointer")
		px := e.ptrOf(p, ST)
		f := ST.Underlying().(*types.Struct).Field(x.Field)
		if isBigInt(ST) || opaqueNamed(ST) {
			panic(e.unsupported("field address into opaque type " + ST.String()))
		}
		np := *px
		np.Path = px.Path + "." + f.Name()
		np.PType = f.Type()
		fr.Regs[x] = Val{T: []*Term{tb.Int(-3)}, Ann: map[string]Ann{"": &np}}
	case *ssa.Field:
		v := e.get(st, x.X)
		fr.Regs[x] = v.sub(x.X.Type(), x.Field)
	case *ssa.IndexAddr:
		fr.Regs[x] = e.indexAddr(st, x)
	case *ssa.Index:
		fr.Regs[x] = e.index(st, x)
	case *ssa.Slice:
		fr.Regs[x] = e.sliceOp(st, x)
	case *ssa.MakeInterface:
		fr.Regs[x] = e.makeInterface(st, e.get(st, x.X), x.X.Type())
	case *ssa.TypeAssert:
		fr.Regs[x] = e.typeAssert(st, x)
	case *ssa.ChangeType:
		fr.Regs[x] = e.get(st, x.X)
	case *ssa.ChangeInterface:
		v := e.get(st, x.X)
		if v.ann("") == nil {
			if it, ok := x.X.Type().Underlying().(*types.Interface); ok && it.NumMethods() > 0 {
				v = v.withAnn("", &IfaceBoundX{Static: x.X.Type()})
			}
		}
		fr.Regs[x] = v
	case *ssa.Convert:
		fr.Regs[x] = e.convert(st, x)
	case *ssa.MakeSlice:
		fr.Regs[x] = e.makeSlice(st, x)
	case *ssa.MakeMap:
		mt := x.Type().Underlying().(*types.Map)
		r := e.newRef(st)
		md := e.mapDomClass(mt)
		e.setH(st, md, tb.Store(e.H(st, md, SArr2B), r, tb.ConstArr(SArrB, tb.False())))
		ml := "MLen:" + typeKey(mt)
		e.setH(st, ml, tb.Store(e.H(st, ml, SArrI), r, tb.Int(0)))
		fr.Regs[x] = scalar(r)
	case *ssa.MakeChan:
		r := e.newRef(st)
		// nothing has been sent on a new channel (ghost send counter)
		cur, ok := st.Ghost["sends"]
		if !ok {
			cur = tb.Const("G0!sends", SArrI)
		}
		st.Ghost["sends"] = tb.Store(cur, r, tb.Int(0))
		if st.Disc != nil {
			st.Disc.Ghosts["sends"] = true
		}
		fr.Regs[x] = scalar(r)
	case *ssa.MakeClosure:
		fn := x.Fn.(*ssa.Function)
		var bs []Val
		for _, b := range x.Bindings {
			bs = append(bs, e.get(st, b))
		}
		r := e.newRef(st)
		fr.Regs[x] = Val{T: []*Term{r}, Ann: map[string]Ann{"": &FuncX{Fn: fn, Bindings: bs}}}
	case *ssa.Lookup:
		fr.Regs[x] = e.lookup(st, x)
	case *ssa.MapUpdate:
		e.mapUpdate(st, x)
	case *ssa.Range:
		fr.Regs[x] = e.rangeStart(st, x)
	case *ssa.Next:
		fr.Regs[x] = e.rangeNext(st, x)
	case *ssa.Extract:
		t := e.get(st, x.Tuple)
		if t.Elems == nil {
			panic("internal: extract from non-tuple")
		}
		fr.Regs[x] = t.Elems[x.Index]
	case *ssa.Phi:
		for i, p := range x.Block().Preds {
			if p == prev {
				fr.Regs[x] = e.get(st, x.Edges[i])
				return
			}
		}
		panic("internal: phi without matching predecessor")
	case *ssa.Send:
		e.chanSend(st, x)
	case *ssa.Select:
		fr.Regs[x] = e.selectOp(st, x)
	case *ssa.SliceToArrayPointer:
		panic(e.unsupported("slice to array pointer conversion"))
	default:
		panic(e.unsupported(fmt.Sprintf("instruction %T", in)))
	}
}

// nilCheck emits the obligation that pointer p is not nil (plain references only).
func (e *Engine) nilCheck(st *State, p Val, pos token.Pos, desc string) {
	if a := p.ann(""); a != nil {
		if px, ok := a.(*PtrX); ok {
			if px.Kind == PField && px.Path == "" {
				e.oblige(st, "nil", "", pos, e.tb.Neq(px.Ref, e.tb.Int(0)), desc)
			}
			return
		}
	}
	e.oblige(st, "nil", "", pos, e.tb.Neq(p.T[0], e.tb.Int(0)), desc)
}

func (e *Engine) unop(st *State, x *ssa.UnOp) Val {
	tb := e.tb
	v := e.get(st, x.X)
	switch x.Op {
	case token.MUL:
		T := x.X.Type().Underlying().(*types.Pointer).Elem()
		e.nilCheck(st, v, x.Pos(), "nil pointer dereference")
		return e.load(st, v, T)
	case token.NOT:
		return scalar(tb.Not(v.T[0]))
	case token.SUB:
		if isFloat(x.Type()) {
			return scalar(tb.App("fneg", SInt, v.T[0]))
		}
		return scalar(e.wrap(tb.Neg(v.T[0]), x.Type()))
	case token.XOR:
		// ^x = -x-1 for signed; max-x for unsigned
		bits, signed, ok := intBits(x.Type())
		if !ok {
			panic(e.unsupported("^ on non-integer"))
		}
		if signed {
			return scalar(tb.Sub(tb.Neg(v.T[0]), tb.Int(1)))
		}
		max := new(big.Int).Sub(new(big.Int).Lsh(big.NewInt(1), uint(bits)), big.NewInt(1))
		return scalar(tb.Sub(tb.BigInt(max), v.T[0]))
	case token.ARROW:
		return e.chanRecv(st, x, v)
	}
	panic(e.unsupported("unary operator " + x.Op.String()))
}

func isFloat(t types.Type) bool {
	b, ok := t.Underlying().(*types.Basic)
	return ok && b.Info()&(types.IsFloat|types.IsComplex) != 0
}

func isString(t types.Type) bool {
	b, ok := t.Underlying().(*types.Basic)
	return ok && b.Info()&types.IsString != 0
}

// wrap reduces a mathematical integer to the range of type T (two's complement wrap-around).
func (e *Engine) wrap(t *Term, T types.Type) *Term {
	bits, signed, ok := intBits(T)
	if !ok {
		return t
	}
	tb := e.tb
	mod := new(big.Int).Lsh(big.NewInt(1), uint(bits))
	if v, isC := t, t.Op == "int"; isC {
		r := new(big.Int).Mod(v.Int, mod)
		if signed && r.Cmp(new(big.Int).Rsh(mod, 1)) >= 0 {
			r.Sub(r, mod)
		}
		return tb.BigInt(r)
	}
	if signed {
		half := new(big.Int).Rsh(mod, 1)
		// ((t + half) mod 2^n) - half
		return tb.Sub(tb.Mod(tb.Add(t, tb.BigInt(half)), tb.BigInt(mod)), tb.BigInt(half))
	}
	return tb.Mod(t, tb.BigInt(mod))
}

// wrap1 wraps the result of a single add/sub of two in-range operands using ite (no mod).
func (e *Engine) wrap1(t *Term, T types.Type) *Term {
	bits, signed, ok := intBits(T)
	if !ok {
		return t
	}
	if t.Op == "int" {
		return e.wrap(t, T)
	}
	tb := e.tb
	mod := new(big.Int).Lsh(big.NewInt(1), uint(bits))
	var lo, hi *big.Int
	if signed {
		lo = new(big.Int).Neg(new(big.Int).Rsh(mod, 1))
		hi = new(big.Int).Sub(new(big.Int).Rsh(mod, 1), big.NewInt(1))
	} else {
		lo = big.NewInt(0)
		hi = new(big.Int).Sub(mod, big.NewInt(1))
	}
	return tb.Ite(tb.Gt(t, tb.BigInt(hi)), tb.Sub(t, tb.BigInt(mod)), tb.Ite(tb.Lt(t, tb.BigInt(lo)), tb.Add(t, tb.BigInt(mod)), t))
}

func (e *Engine) binop(st *State, op token.Token, a, b Val, opT types.Type, resT types.Type, pos token.Pos) Val {
	tb := e.tb
	switch op {
	case token.EQL, token.NEQ:
		eq := e.valEq(st, a, b, opT)
		if op == token.NEQ {
			eq = tb.Not(eq)
		}
		return scalar(eq)
	}
	if isFloat(opT) {
		name := map[token.Token]string{token.ADD: "fadd", token.SUB: "fsub", token.MUL: "fmul", token.QUO: "fdiv", token.LSS: "flt", token.LEQ: "fle", token.GTR: "fgt", token.GEQ: "fge"}[op]
		if name == "" {
			panic(e.unsupported("float operator " + op.String()))
		}
		switch op {
		case token.LSS, token.LEQ, token.GTR, token.GEQ:
			return scalar(tb.App(name, SBool, a.T[0], b.T[0]))
		}
		return scalar(tb.App(name, SInt, a.T[0], b.T[0]))
	}
	if isString(opT) {
		switch op {
		case token.ADD:
			return scalar(tb.App("strcat", SInt, a.T[0], b.T[0]))
		case token.LSS, token.LEQ, token.GTR, token.GEQ:
			return scalar(tb.App("strcmp_"+op.String(), SBool, a.T[0], b.T[0]))
		}
	}
	x, y := a.T[0], b.T[0]
	switch op {
	case token.ADD:
		return scalar(e.wrap1(tb.Add(x, y), resT))
	case token.SUB:
		return scalar(e.wrap1(tb.Sub(x, y), resT))
	case token.MUL:
		return scalar(e.wrap(tb.Mul(x, y), resT))
	case token.QUO:
		e.oblige(st, "div", "", pos, tb.Neq(y, tb.Int(0)), "integer division by zero")
		return scalar(e.wrap(e.truncDiv(x, y), resT))
	case token.REM:
		e.oblige(st, "div", "", pos, tb.Neq(y, tb.Int(0)), "integer division by zero")
		// (a >> s) % 2 on an unsigned a: bit s of a
		if c, ok := y.ConstInt(); ok && c == 2 && x.Op == "app" && strings.HasPrefix(x.Name, "bit_shr_") && len(x.Args) == 2 {
			if _, signed, isInt := intBits(opT); isInt && !signed {
				return scalar(e.getbit(st, x.Args[0], x.Args[1]))
			}
		}
		q := e.truncDiv(x, y)
		return scalar(tb.Sub(x, tb.Mul(q, y)))
	case token.LSS:
		return scalar(tb.Lt(x, y))
	case token.LEQ:
		return scalar(tb.Le(x, y))
	case token.GTR:
		return scalar(tb.Gt(x, y))
	case token.GEQ:
		return scalar(tb.Ge(x, y))
	case token.LAND:
		return scalar(tb.And(x, y))
	case token.LOR:
		return scalar(tb.Or(x, y))
	case token.SHL:
		if _, signed, isInt := intBits(b2type(opT, resT, b)); isInt && signed {
			e.oblige(st, "shift", "", pos, tb.Ge(y, tb.Int(0)), "negative shift amount")
		}
		if c, ok := y.ConstInt(); ok && c >= 0 && c < 64 {
			return scalar(e.wrap(tb.Mul(x, tb.BigInt(new(big.Int).Lsh(big.NewInt(1), uint(c)))), resT))
		}
		if cx, ok := x.ConstInt(); ok && cx == 1 {
			// 1 << y : uninterpreted power of two with axioms on demand
			return scalar(e.wrap(e.pow2(st, y), resT))
		}
		return scalar(e.bitUF(st, "shl", x, y, resT))
	case token.SHR:
		if _, signed, isInt := intBits(b2type(opT, resT, b)); isInt && signed {
			e.oblige(st, "shift", "", pos, tb.Ge(y, tb.Int(0)), "negative shift amount")
		}
		if c, ok := y.ConstInt(); ok && c >= 0 && c < 64 {
			if _, signed, _ := intBits(opT); !signed {
				return scalar(tb.Div(x, tb.BigInt(new(big.Int).Lsh(big.NewInt(1), uint(c)))))
			}
			return scalar(tb.Div(x, tb.BigInt(new(big.Int).Lsh(big.NewInt(1), uint(c))))) // floor division = arithmetic shift
		}
		return scalar(e.bitUF(st, "shr", x, y, resT))
	case token.AND:
		if x.Sort == SBool {
			return scalar(tb.And(x, y))
		}
		// x & (2^k-1) = x mod 2^k for non-negative x
		if c, ok := y.ConstInt(); ok && c >= 0 && (c&(c+1)) == 0 {
			if _, signed, _ := intBits(opT); !signed {
				return scalar(tb.Mod(x, tb.Int(c+1)))
			}
		}
		if c, ok := y.ConstInt(); ok && c > 0 && (c&(c-1)) == 0 {
			// single bit test: x & 2^k = ((x div 2^k) mod 2) * 2^k   (unsigned)
			if _, signed, _ := intBits(opT); !signed {
				return scalar(tb.Mul(tb.Mod(tb.Div(x, tb.Int(c)), tb.Int(2)), tb.Int(c)))
			}
		}
		return scalar(e.bitUF(st, "and", x, y, resT))
	case token.OR:
		if x.Sort == SBool {
			return scalar(tb.Or(x, y))
		}
		// x | (1 << s) on an unsigned type: set bit s
		if bits, signed, isInt := intBits(resT); isInt && !signed {
			for _, pr := range [][2]*Term{{x, y}, {y, x}} {
				if s, ok := pow2Arg(pr[1]); ok {
					return scalar(e.setbit(st, pr[0], s, bits))
				}
			}
		}
		return scalar(e.bitUF(st, "or", x, y, resT))
	case token.XOR:
		if x.Sort == SBool {
			return scalar(tb.Not(tb.Eq(x, y)))
		}
		// x ^ 1 flips the lowest bit: x + 1 - 2*(x mod 2) for unsigned x
		if c, ok := y.ConstInt(); ok && c == 1 {
			if _, signed, isInt := intBits(opT); isInt && !signed {
				return scalar(tb.Sub(tb.Add(x, tb.Int(1)), tb.Mul(tb.Int(2), tb.Mod(x, tb.Int(2)))))
			}
		}
		return scalar(e.bitUF(st, "xor", x, y, resT))
	case token.AND_NOT:
		return scalar(e.bitUF(st, "andnot", x, y, resT))
	}
	panic(e.unsupported("binary operator " + op.String()))
}

// b2type: the type of the shift count is not available in binop's signature; shifts pass it via shiftCountType.
func b2type(opT, resT types.Type, b Val) types.Type {
	if shiftCountType != nil {
		return shiftCountType
	}
	return types.Typ[types.Uint]
}

var shiftCountType types.Type

// bitUF models a bit operation as an uninterpreted function whose result is in the type's range.
func (e *Engine) bitUF(st *State, name string, x, y *Term, T types.Type) *Term {
	r := e.tb.App("bit_"+name+"_"+typeKey(T), SInt, x, y)
	e.wfLeaf(st, Leaf{Kind: LKInt, Typ: T, Sort: SInt}, r)
	return r
}

// pow2Arg recognises 1 << s (possibly wrapped to the operand width) and returns s.
func pow2Arg(t *Term) (*Term, bool) {
	if t.Op == "app" && t.Name == "pow2" && len(t.Args) == 1 {
		return t.Args[0], true
	}
	if t.Op == "mod" && len(t.Args) == 2 {
		return pow2Arg(t.Args[0])
	}
	return nil, false
}

// getbit(a, s): bit s of the non-negative integer a (uninterpreted; axioms below and in the script prelude).
func (e *Engine) getbit(st *State, a, s *Term) *Term {
	tb := e.tb
	r := tb.App("getbit", SInt, a, s)
	e.Assumed["bit operations: x | 1<<s sets bit s and leaves the other bits, (x >> s) % 2 reads bit s, 0 has no bits (uninterpreted getbit/setbit with these axioms, valid for unsigned machine integers)"] = true
	return r
}

// setbit(x, s) = x | 1<<s for an unsigned type of the given width.
func (e *Engine) setbit(st *State, x, s *Term, bits int) *Term {
	tb := e.tb
	r := tb.App("setbit", SInt, x, s)
	inw := tb.And(tb.Le(tb.Int(0), s), tb.Lt(s, tb.Int(int64(bits))))
	// shifting the one out of the operand gives 0: the value is unchanged
	e.assume(st, tb.Implies(tb.Not(inw), tb.Eq(r, x)))
	e.assume(st, tb.Implies(inw, tb.Eq(e.getbit(st, r, s), tb.Int(1))))
	c := tb.BoundVar("c", SInt)
	e.assume(st, tb.Forall([]*Term{c}, tb.Implies(tb.And(inw, tb.Not(tb.Eq(c, s))), tb.Eq(tb.App("getbit", SInt, r, c), tb.App("getbit", SInt, x, c))), []*Term{tb.App("getbit", SInt, r, c)}))
	e.assume(st, tb.And(tb.Le(tb.Int(0), r), tb.Lt(r, tb.BigInt(new(big.Int).Lsh(big.NewInt(1), uint(bits))))))
	return r
}

func (e *Engine) pow2(st *State, y *Term) *Term {
	tb := e.tb
	r := tb.App("pow2", SInt, y)
	e.assume(st, tb.Gt(r, tb.Int(0)))
	return r
}

// truncDiv is Go's truncated division expressed with SMT floor division.
func (e *Engine) truncDiv(x, y *Term) *Term {
	tb := e.tb
	if cx, ok := x.ConstInt(); ok {
		if cy, ok2 := y.ConstInt(); ok2 && cy != 0 {
			return tb.Int(cx / cy)
		}
	}
	// SMT div rounds so that remainder is non-negative; Go truncates toward zero.
	// For x >= 0: trunc = div(x,y) when y>0; -(div(x,-y)) when y<0.
	// General: ite(x>=0, ite(y>0, x div y, -(x div -y)), ite(y>0, -((-x) div y), (-x) div (-y)))
	nx, ny := tb.Neg(x), tb.Neg(y)
	return tb.Ite(tb.Ge(x, tb.Int(0)),
		tb.Ite(tb.Gt(y, tb.Int(0)), tb.Div(x, y), tb.Neg(tb.Div(x, ny))),
		tb.Ite(tb.Gt(y, tb.Int(0)), tb.Neg(tb.Div(nx, y)), tb.Div(nx, ny)))
}

// valEq is Go's == on two values of static type T.
func (e *Engine) valEq(st *State, a, b Val, T types.Type) *Term {
	tb := e.tb
	// comparisons with nil of slice/map/func/pointer/interface types
	switch u := T.Underlying().(type) {
	case *types.Slice:
		// only comparison with nil is legal
		if isZeroVal(a) {
			return tb.Eq(b.slArr(), tb.Int(0))
		}
		return tb.Eq(a.slArr(), tb.Int(0))
	case *types.Interface:
		_ = u
		// comparison with the nil interface: the tag decides (tag == 0 implies payload == 0 by well-formedness)
		if isZeroVal(a) {
			return tb.Eq(b.ifTag(), tb.Int(0))
		}
		if isZeroVal(b) {
			return tb.Eq(a.ifTag(), tb.Int(0))
		}
		return tb.And(tb.Eq(a.ifTag(), b.ifTag()), tb.Eq(a.ifVal(), b.ifVal()))
	case *types.Pointer:
		pa, pb := a.ann(""), b.ann("")
		if pa != nil || pb != nil {
			xa, oka := pa.(*PtrX)
			xb, okb := pb.(*PtrX)
			if oka && okb {
				if xa.Kind == xb.Kind && xa.Cell == xb.Cell && xa.Glob == xb.Glob && xa.Path == xb.Path && xa.Elem == xb.Elem && xa.Ref == xb.Ref && xa.Idx == xb.Idx {
					return tb.True()
				}
				if xa.Kind == PLocal && xb.Kind == PLocal && xa.Cell != xb.Cell {
					return tb.False()
				}
				if xa.Kind == PLocal || xb.Kind == PLocal || xa.Kind == PGlobal || xb.Kind == PGlobal {
					return tb.False()
				}
				panic(e.unsupported("comparison of interior pointers"))
			}
			// interior/local pointer vs plain: never nil; compare to nil -> false
			var other Val
			var mine *PtrX
			if oka {
				other, mine = b, xa
			} else {
				other, mine = a, xb
			}
			if c, ok := other.T[0].ConstInt(); ok && c == 0 {
				return tb.False()
			}
			if mine.Kind == PLocal && mine.Path == "" && mine.Elem < 0 {
				if sp := st.Cells[mine.Cell].Spill; sp != nil {
					return tb.Eq(sp, other.T[0])
				}
				return tb.False() // a local object that never escaped is different from every reference
			}
			panic(e.unsupported("comparison of interior pointer with reference"))
		}
	case *types.Array:
		a = e.flatten(st, T, a)
		b = e.flatten(st, T, b)
	}
	a = e.flatten(st, T, a)
	b = e.flatten(st, T, b)
	if len(a.T) != len(b.T) {
		panic(fmt.Sprintf("valEq: leaf count mismatch for %s", T))
	}
	var cs []*Term
	for i := range a.T {
		cs = append(cs, tb.Eq(a.T[i], b.T[i]))
	}
	return tb.And(cs...)
}

func isZeroVal(v Val) bool {
	for _, t := range v.T {
		if !(t.Op == "int" && t.Int.Sign() == 0) && !t.IsFalse() {
			return false
		}
	}
	return len(v.T) > 0
}

func (e *Engine) indexAddr(st *State, x *ssa.IndexAddr) Val {
	tb := e.tb
	base := e.get(st, x.X)
	idx := e.get(st, x.Index).T[0]
	switch bt := x.X.Type().Underlying().(type) {
	case *types.Slice:
		if sx, ok := base.ann("").(*SliceX); ok {
			if c, isC := idx.ConstInt(); isC {
				if c < 0 || int(c) >= sx.Hi-sx.Lo {
					e.oblige(st, "bounds", "", x.Pos(), tb.False(), "index out of range")
					panic(pathAbort{})
				}
				return Val{T: []*Term{tb.Int(-4)}, Ann: map[string]Ann{"": &PtrX{Kind: PLocal, Cell: sx.Cell, Elem: sx.Lo + int(c), PType: bt.Elem()}}}
			}
			base = e.materialise(st, base, bt)
		}
		e.oblige(st, "bounds", "", x.Pos(), tb.And(tb.Le(tb.Int(0), idx), tb.Lt(idx, base.slLen())), "index out of range")
		return Val{T: []*Term{tb.Int(-4)}, Ann: map[string]Ann{"": &PtrX{Kind: PElem, Ref: base.slArr(), Idx: tb.Idx(base.slOff(), idx), Root: bt.Elem(), Elem: -1, PType: bt.Elem()}}}
	case *types.Pointer:
		at := bt.Elem().Underlying().(*types.Array)
		e.nilCheck(st, base, x.Pos(), "index through nil array pointer")
		px := e.ptrOf(base, bt.Elem())
		e.oblige(st, "bounds", "", x.Pos(), tb.And(tb.Le(tb.Int(0), idx), tb.Lt(idx, tb.Int(at.Len()))), "index out of range")
		switch px.Kind {
		case PLocal:
			if px.Path != "" {
				panic(e.unsupported("index into array nested in a local struct"))
			}
			c := st.Cells[px.Cell]
			if ci, isC := idx.ConstInt(); isC && c.Spill == nil && c.V.Elems != nil {
				return Val{T: []*Term{tb.Int(-4)}, Ann: map[string]Ann{"": &PtrX{Kind: PLocal, Cell: px.Cell, Elem: int(ci), PType: at.Elem()}}}
			}
			arr := e.spill(st, px.Cell)
			return Val{T: []*Term{tb.Int(-4)}, Ann: map[string]Ann{"": &PtrX{Kind: PElem, Ref: arr, Idx: idx, Root: at.Elem(), Elem: -1, PType: at.Elem()}}}
		default:
			panic(e.unsupported("index into array stored in the heap (" + bt.String() + ")"))
		}
	}
	panic(e.unsupported("IndexAddr on " + x.X.Type().String()))
}

func (e *Engine) index(st *State, x *ssa.Index) Val {
	tb := e.tb
	base := e.get(st, x.X)
	idx := e.get(st, x.Index).T[0]
	switch bt := x.X.Type().Underlying().(type) {
	case *types.Array:
		e.oblige(st, "bounds", "", x.Pos(), tb.And(tb.Le(tb.Int(0), idx), tb.Lt(idx, tb.Int(bt.Len()))), "index out of range")
		if base.Elems != nil {
			if c, ok := idx.ConstInt(); ok {
				return base.Elems[c]
			}
			// symbolic index into a local array value: ite chain for scalars
			if len(Leaves(bt.Elem())) == 1 {
				res := e.flatten(st, bt.Elem(), base.Elems[len(base.Elems)-1]).T[0]
				for i := len(base.Elems) - 2; i >= 0; i-- {
					res = tb.Ite(tb.Eq(idx, tb.Int(int64(i))), e.flatten(st, bt.Elem(), base.Elems[i]).T[0], res)
				}
				return scalar(res)
			}
		}
		ls := Leaves(bt.Elem())
		out := Val{T: make([]*Term, len(ls))}
		tok := e.flatten(st, bt, base).T[0]
		for i, l := range ls {
			if l.Sort == SBool {
				out.T[i] = tb.App("arrget_b_"+typeKey(bt)+l.Path, SBool, tok, idx)
			} else {
				out.T[i] = tb.App("arrget_"+typeKey(bt)+l.Path, SInt, tok, idx)
			}
		}
		e.wfVal(st, bt.Elem(), out)
		return out
	case *types.Basic: // string index
		e.oblige(st, "bounds", "", x.Pos(), tb.And(tb.Le(tb.Int(0), idx), tb.Lt(idx, e.strLen(st, base.T[0]))), "string index out of range")
		r := tb.App("strbyte", SInt, base.T[0], idx)
		e.assume(st, tb.And(tb.Le(tb.Int(0), r), tb.Le(r, tb.Int(255))))
		return scalar(r)
	}
	panic(e.unsupported("Index on " + x.X.Type().String()))
}

func (e *Engine) strLen(st *State, s *Term) *Term {
	tb := e.tb
	if c, ok := s.ConstInt(); ok {
		for str, id := range e.strIDs {
			if id == c {
				return tb.Int(int64(len(str)))
			}
		}
	}
	r := tb.App("strlen", SInt, s)
	e.assume(st, tb.Le(tb.Int(0), r))
	// the empty string is the only string of length 0
	e.assume(st, tb.Implies(tb.Eq(r, tb.Int(0)), tb.Eq(s, tb.Int(e.strID("")))))
	return r
}

func (e *Engine) sliceOp(st *State, x *ssa.Slice) Val {
	tb := e.tb
	base := e.get(st, x.X)
	var lo, hi, max *Term
	if x.Low != nil {
		lo = e.get(st, x.Low).T[0]
	}
	if x.High != nil {
		hi = e.get(st, x.High).T[0]
	}
	if x.Max != nil {
		max = e.get(st, x.Max).T[0]
	}
	switch bt := x.X.Type().Underlying().(type) {
	case *types.Pointer: // pointer to array
		at := bt.Elem().Underlying().(*types.Array)
		e.nilCheck(st, base, x.Pos(), "slice of nil array pointer")
		px := e.ptrOf(base, bt.Elem())
		n := at.Len()
		l, h := int64(0), n
		constBounds := true
		if lo != nil {
			if c, ok := lo.ConstInt(); ok {
				l = c
			} else {
				constBounds = false
			}
		}
		if hi != nil {
			if c, ok := hi.ConstInt(); ok {
				h = c
			} else {
				constBounds = false
			}
		}
		if px.Kind == PLocal && px.Path == "" && px.Elem < 0 && constBounds && st.Cells[px.Cell].Spill == nil && st.Cells[px.Cell].V.Elems != nil {
			if l < 0 || h > n || l > h {
				e.oblige(st, "bounds", "", x.Pos(), tb.False(), "slice bounds out of range")
				panic(pathAbort{})
			}
			return Val{T: []*Term{tb.Int(-5), tb.Int(0), tb.Int(h - l), tb.Int(n - l)}, Ann: map[string]Ann{"": &SliceX{Cell: px.Cell, Lo: int(l), Hi: int(h), ElemT: at.Elem()}}}
		}
		var arr *Term
		switch px.Kind {
		case PLocal:
			if px.Path == "" && px.Elem < 0 {
				arr = e.spill(st, px.Cell)
				break
			}
			fallthrough
		case PField, PElem, PGlobal:
			// array stored in the heap as an opaque token: produce a read-only view with unknown contents tied to the token
			tok := e.loadPx(st, px, bt.Elem()).T[0]
			arr = e.newRef(st)
			e.assume(st, tb.Eq(tb.App("viewtok_"+typeKey(bt.Elem()), SInt, arr), tok))
			st.Ghost["view:"+fmt.Sprint(arr.ID)] = tok
			st.Views[arr.ID] = viewOrigin{px: *px, T: bt.Elem(), N: n}
			// element values are functions of the token
			el := at.Elem()
			if len(Leaves(el)) == 1 && Leaves(el)[0].Sort == SInt {
				cl := e.elemClass(el, "", Leaves(el)[0])
				h := e.H(st, cl, SArr2I)
				row := tb.App("unpack_"+typeKey(bt.Elem()), SArrI, tok)
				st.Heap[cl] = tb.Store(h, arr, row)
				// the token is determined by its elements: pack(unpack(tok)) == tok
				e.assume(st, tb.Eq(tb.App("packr_"+typeKey(bt.Elem()), SInt, row, tb.Int(0), tb.Int(n)), tok))
			}
		}
		lot, hit := tb.Int(0), tb.Int(n)
		if lo != nil {
			lot = lo
		}
		if hi != nil {
			hit = hi
		}
		e.oblige(st, "bounds", "", x.Pos(), tb.And(tb.Le(tb.Int(0), lot), tb.Le(lot, hit), tb.Le(hit, tb.Int(n))), "slice bounds out of range")
		return Val{T: []*Term{arr, lot, tb.Sub(hit, lot), tb.Sub(tb.Int(n), lot)}}
	case *types.Slice:
		if _, ok := base.ann("").(*SliceX); ok {
			sx := base.ann("").(*SliceX)
			l, h := int64(0), int64(sx.Hi-sx.Lo)
			okc := true
			if lo != nil {
				if c, ok := lo.ConstInt(); ok {
					l = c
				} else {
					okc = false
				}
			}
			if hi != nil {
				if c, ok := hi.ConstInt(); ok {
					h = c
				} else {
					okc = false
				}
			}
			if okc && max == nil && l >= 0 && l <= h && int(h) <= sx.Hi-sx.Lo {
				capN, _ := base.slCap().ConstInt()
				return Val{T: []*Term{tb.Int(-5), tb.Int(0), tb.Int(h - l), tb.Int(capN - l)}, Ann: map[string]Ann{"": &SliceX{Cell: sx.Cell, Lo: sx.Lo + int(l), Hi: sx.Lo + int(h), ElemT: sx.ElemT}}}
			}
			base = e.materialise(st, base, bt)
		}
		lot, hit := tb.Int(0), base.slLen()
		if lo != nil {
			lot = lo
		}
		if hi != nil {
			hit = hi
		}
		capT := base.slCap()
		if max != nil {
			e.oblige(st, "bounds", "", x.Pos(), tb.And(tb.Le(tb.Int(0), lot), tb.Le(lot, hit), tb.Le(hit, max), tb.Le(max, base.slCap())), "slice bounds out of range")
			capT = max
		} else {
			e.oblige(st, "bounds", "", x.Pos(), tb.And(tb.Le(tb.Int(0), lot), tb.Le(lot, hit), tb.Le(hit, base.slCap())), "slice bounds out of range")
		}
		// s[lo:hi] of nil slice stays nil (arr 0)
		newOff := tb.Ite(tb.Eq(base.slArr(), tb.Int(0)), tb.Int(0), tb.Add(base.slOff(), lot))
		if c, isC := lot.ConstInt(); !(isC && c == 0) && base.slOff().Op != "int" {
			// element positions of the sub-slice and of its base coincide: idx(off', k) = idx(off, lo+k). Stated over the
			// uninterpreted idx so that quantified facts about either slice instantiate for the other.
			no := tb.Fresh("sloff", SInt)
			e.assumeQuiet(st, tb.Eq(no, newOff))
			k := tb.BoundVar("k", SInt)
			e.assumeQuiet(st, tb.Forall([]*Term{k}, tb.Eq(tb.App("idx", SInt, no, k), tb.App("idx", SInt, base.slOff(), tb.Add(lot, k))), []*Term{tb.App("idx", SInt, no, k)}))
			j := tb.BoundVar("j", SInt)
			e.assumeQuiet(st, tb.Forall([]*Term{j}, tb.Eq(tb.App("idx", SInt, base.slOff(), j), tb.App("idx", SInt, no, tb.Sub(j, lot))), []*Term{tb.App("idx", SInt, base.slOff(), j)}))
			tb.UsesIdx = true
			newOff = no
		}
		return Val{T: []*Term{base.slArr(), newOff, tb.Sub(hit, lot), tb.Sub(capT, lot)}}
	case *types.Basic: // string
		ln := e.strLen(st, base.T[0])
		lot, hit := tb.Int(0), ln
		if lo != nil {
			lot = lo
		}
		if hi != nil {
			hit = hi
		}
		e.oblige(st, "bounds", "", x.Pos(), tb.And(tb.Le(tb.Int(0), lot), tb.Le(lot, hit), tb.Le(hit, ln)), "string slice bounds out of range")
		r := tb.App("substr", SInt, base.T[0], lot, hit)
		e.assume(st, tb.Eq(tb.App("strlen", SInt, r), tb.Sub(hit, lot)))
		return scalar(r)
	}
	panic(e.unsupported("Slice on " + x.X.Type().String()))
}

type viewOrigin struct {
	px PtrX
	T  types.Type
	N  int64 // array length
}

func (e *Engine) makeInterface(st *State, v Val, T types.Type) Val {
	tb := e.tb
	tag := tb.Int(e.typeTag(T))
	ls := Leaves(T)
	// an error value of a type without Cause method is its own cause (pkg/errors.Cause)
	if ms := e.Prog.MethodSets.MethodSet(T); ms.Lookup(nil, "Error") != nil && ms.Lookup(nil, "Cause") == nil && len(ls) == 1 && ls[0].Sort == SInt && v.Ann == nil {
		e.assumeQuiet(st, tb.And(tb.Eq(tb.App("errcause_tag", SInt, tag, v.T[0]), tag), tb.Eq(tb.App("errcause_val", SInt, tag, v.T[0]), v.T[0])))
	}
	if len(ls) == 1 && v.Elems == nil && v.Ann == nil && ls[0].Sort == SInt {
		return Val{T: []*Term{tag, v.T[0]}, Ann: map[string]Ann{"": &IfaceX{Dyn: T}}}
	}
	// box
	box := v
	r := e.newRef(st)
	fv := e.flatten(st, T, v)
	if fv.Ann == nil {
		for i, l := range ls {
			cl := "Box:" + typeKey(T) + l.Path
			st.Heap[cl] = tb.Store(e.H(st, cl, ArrOf(l.Sort)), r, fv.T[i])
		}
	}
	return Val{T: []*Term{tag, r}, Ann: map[string]Ann{"": &IfaceX{Dyn: T, Box: &box}}}
}

// unbox reads the payload of an interface value known (on this path) to hold dynamic type T.
func (e *Engine) unbox(st *State, v Val, T types.Type) Val {
	if ix, ok := v.ann("").(*IfaceX); ok && ix.Box != nil && types.Identical(ix.Dyn, T) {
		return *ix.Box
	}
	ls := Leaves(T)
	if len(ls) == 1 && ls[0].Sort == SInt {
		out := scalar(v.ifVal())
		e.wfVal(st, T, out)
		return out
	}
	out := Val{T: make([]*Term, len(ls))}
	for i, l := range ls {
		out.T[i] = e.tb.Select(e.H(st, "Box:"+typeKey(T)+l.Path, ArrOf(l.Sort)), v.ifVal())
	}
	e.wfVal(st, T, out)
	return out
}

func (e *Engine) typeAssert(st *State, x *ssa.TypeAssert) Val {
	tb := e.tb
	v := e.get(st, x.X)
	AT := x.AssertedType
	var ok *Term
	var res Val
	_, toIface := AT.Underlying().(*types.Interface)
	if ix, isC := v.ann("").(*IfaceX); isC {
		if toIface {
			ok = tb.Bool(types.Implements(ix.Dyn, AT.Underlying().(*types.Interface)))
			res = v
		} else {
			ok = tb.Bool(types.Identical(ix.Dyn, AT))
			if ok.IsTrue() {
				res = e.unbox(st, v, AT)
			} else {
				res = e.zeroVal(AT)
			}
		}
	} else if bx, isB := v.ann("").(*IfaceBoundX); isB && !toIface && !types.Implements(AT, bx.Static.Underlying().(*types.Interface)) {
		// the dynamic type implements bx.Static; AT does not: the assertion fails
		ok = tb.False()
		res = e.zeroVal(AT)
	} else if bx, isB := v.ann("").(*IfaceBoundX); isB && toIface && types.Implements(bx.Static, AT.Underlying().(*types.Interface)) {
		ok = tb.Neq(v.ifTag(), tb.Int(0))
		res = v
	} else if toIface {
		it := AT.Underlying().(*types.Interface)
		if it.NumMethods() == 0 {
			ok = tb.Neq(v.ifTag(), tb.Int(0))
		} else {
			ok = tb.And(tb.Neq(v.ifTag(), tb.Int(0)), tb.App("implements_"+typeKey(AT), SBool, v.ifTag()))
			// if the static type of X already implements AT, any non-nil value does
			if xi, isI := x.X.Type().Underlying().(*types.Interface); isI && types.Implements(x.X.Type(), it) && xi != nil {
				ok = tb.Neq(v.ifTag(), tb.Int(0))
			}
		}
		res = Val{T: v.T}
	} else {
		ok = tb.Eq(v.ifTag(), tb.Int(e.typeTag(AT)))
		res = e.unbox(st, Val{T: v.T}, AT)
		if _, isPtr := AT.Underlying().(*types.Pointer); isPtr && len(res.T) == 1 {
			// modelling assumption: interface values of unknown origin do not hold typed-nil pointers
			e.Assumed["interface values of unknown dynamic type do not hold typed-nil pointers (a successful type assertion to a pointer type yields a non-nil pointer)"] = true
			e.assume(st, tb.Implies(ok, tb.Neq(res.T[0], tb.Int(0))))
		}
	}
	if x.CommaOk {
		// the value is the zero value when !ok; callers in practice only use it under ok
		if !ok.IsTrue() && !ok.IsFalse() {
			z := e.zeroVal(AT)
			rf := e.flatten(st, AT, res)
			zf := e.flatten(st, AT, z)
			if len(rf.T) == len(zf.T) && rf.Ann == nil {
				m := Val{T: make([]*Term, len(rf.T))}
				for i := range rf.T {
					m.T[i] = tb.Ite(ok, rf.T[i], zf.T[i])
				}
				res = m
			}
		}
		return Val{Elems: []Val{res, scalar(ok)}}
	}
	e.oblige(st, "assert", "", x.Pos(), ok, "type assertion may fail")
	if ok.IsFalse() {
		panic(pathAbort{})
	}
	return res
}

func (e *Engine) convert(st *State, x *ssa.Convert) Val {
	tb := e.tb
	v := e.get(st, x.X)
	from, to := x.X.Type(), x.Type()
	fb, fok := from.Underlying().(*types.Basic)
	tbz, tok := to.Underlying().(*types.Basic)
	switch {
	case fok && tok && fb.Info()&types.IsInteger != 0 && tbz.Info()&types.IsInteger != 0:
		// widening conversions keep the value; narrowing wraps
		flo, fhi, _ := intRange(from)
		tlo, thi, _ := intRange(to)
		if within(flo, fhi, tlo, thi) {
			return v
		}
		return scalar(e.wrap(v.T[0], to))
	case fok && tok && fb.Info()&types.IsInteger != 0 && tbz.Info()&types.IsFloat != 0:
		return scalar(tb.App("int2float", SInt, v.T[0]))
	case fok && tok && fb.Info()&types.IsFloat != 0 && tbz.Info()&types.IsInteger != 0:
		if a := v.T[0]; a.Op == "app" && a.Name == "ceildiv" {
			if c, ok := a.Args[1].ConstInt(); ok && c > 0 {
				// int(math.Ceil(float64(n)/c)) == (n+c-1)/c for 0 <= n < 2^53 (float64 is exact there); trusted arithmetic fact
				e.Assumed["int(math.Ceil(float64(n)/c)) == (n+c-1)/c for 0 <= n < 2^53 and constant c > 0 (float64 exactness; side fact, not proved by the solver)"] = true
				n := a.Args[0]
				return scalar(tb.Ite(tb.And(tb.Ge(n, tb.Int(0)), tb.Lt(n, tb.BigInt(new(big.Int).Lsh(big.NewInt(1), 53)))),
					tb.Div(tb.Add(n, tb.Int(c-1)), tb.Int(c)), tb.App("float2int_"+typeKey(to), SInt, a)))
			}
		}
		r := tb.App("float2int_"+typeKey(to), SInt, v.T[0])
		e.wfLeaf(st, Leaf{Kind: LKInt, Typ: to}, r)
		return scalar(r)
	case fok && tok && fb.Info()&types.IsFloat != 0 && tbz.Info()&types.IsFloat != 0:
		return v
	case fok && tok && fb.Info()&types.IsString != 0 && tbz.Info()&types.IsString != 0:
		return v
	case fok && tok && fb.Info()&types.IsInteger != 0 && tbz.Info()&types.IsString != 0:
		return scalar(tb.App("rune2str", SInt, v.T[0]))
	}
	// string <-> []byte
	if _, isSl := to.Underlying().(*types.Slice); isSl && fok && fb.Info()&types.IsString != 0 {
		arr := e.newRef(st)
		ln := e.strLen(st, v.T[0])
		cl := "E:uint8"
		h := e.H(st, cl, SArr2I)
		st.Heap[cl] = tb.Store(h, arr, tb.App("strbytes", SArrI, v.T[0]))
		return Val{T: []*Term{tb.Ite(tb.Eq(ln, tb.Int(0)), arr, arr), tb.Int(0), ln, ln}}
	}
	if sl, isSl := from.Underlying().(*types.Slice); isSl && tok && tbz.Info()&types.IsString != 0 {
		_ = sl
		v = e.materialise(st, v, from)
		row := tb.Select(e.H(st, "E:uint8", SArr2I), v.slArr())
		r := tb.App("bytes2str", SInt, row, v.slOff(), v.slLen())
		e.assume(st, tb.Eq(tb.App("strlen", SInt, r), v.slLen()))
		e.assume(st, tb.Implies(tb.Eq(v.slLen(), tb.Int(0)), tb.Eq(r, tb.Int(e.strID("")))))
		return scalar(r)
	}
	if _, isPtr := to.Underlying().(*types.Pointer); isPtr {
		return v
	}
	if tok && tbz.Kind() == types.UnsafePointer {
		return v
	}
	panic(e.unsupported("conversion " + from.String() + " -> " + to.String()))
}

func within(flo, fhi, tlo, thi string) bool {
	a, _ := new(big.Int).SetString(flo, 10)
	b, _ := new(big.Int).SetString(fhi, 10)
	c, _ := new(big.Int).SetString(tlo, 10)
	d, _ := new(big.Int).SetString(thi, 10)
	return a.Cmp(c) >= 0 && b.Cmp(d) <= 0
}

func (e *Engine) makeSlice(st *State, x *ssa.MakeSlice) Val {
	tb := e.tb
	ln := e.get(st, x.Len).T[0]
	cp := e.get(st, x.Cap).T[0]
	elT := x.Type().Underlying().(*types.Slice).Elem()
	maxN := e.maxElems(elT)
	e.oblige(st, "makeslice", "", x.Pos(), tb.And(tb.Le(tb.Int(0), ln), tb.Le(ln, cp), tb.Le(cp, tb.BigInt(maxN))), "makeslice: len/cap out of range")
	return e.allocSlice(st, elT, ln, cp)
}

// allocSlice allocates a fresh zeroed backing array.
func (e *Engine) allocSlice(st *State, elT types.Type, ln, cp *Term) Val {
	tb := e.tb
	arr := e.newRef(st)
	for _, l := range Leaves(elT) {
		cl := e.elemClass(elT, "", l)
		h := e.H(st, cl, ArrOf(ArrOf(l.Sort)))
		var z *Term
		if l.Sort == SBool {
			z = tb.ConstArr(SArrB, tb.False())
		} else {
			z = tb.ConstArr(SArrI, tb.Int(0))
		}
		e.setH(st, cl, tb.Store(h, arr, z))
	}
	return Val{T: []*Term{arr, tb.Int(0), ln, cp}}
}
