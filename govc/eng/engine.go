package eng

import (
	"fmt"
	"go/token"
	"go/types"
	"math/big"
	"os"
	"path/filepath"
	"sort"
	"strings"

	"golang.org/x/tools/go/packages"
	"golang.org/x/tools/go/ssa"
	"golang.org/x/tools/go/ssa/ssautil"
)

// Engine holds the loaded program, the contracts and the output of a run.
type Engine struct {
	pendingFreeVars map[string]specBind // captured variables of a closure that is being called through its contract
	codecChecked    map[*CodecDecl]bool
	UsedLemmas      []string // lemma functions whose codec declaration was used as a summary (must be verified by the same check)
	tb              *TB
	Prog            *ssa.Program
	Pkgs            map[string]*packages.Package
	SSAPkgs         map[string]*ssa.Package
	Specs           *SpecSet
	Fset            *token.FileSet
	Sizes           types.Sizes

	classSorts  map[string]Sort
	classKinds  map[string]LeafKind
	initAxioms  map[string]*Term
	classRanges map[string][2]*big.Int // unsigned-integer heap classes: value range
	strIDs      map[string]int64
	typeTags    map[string]int64
	tagTypes    map[int64]types.Type
	loops       map[*ssa.Function]*funcLoops
	funcByKey   map[string]*ssa.Function

	// per verified function
	entryHeap   map[string]*Term
	entryAlloc  *Term
	copies      []copyRec
	viewOrigins map[int]viewOrigin
	initPkg     string
	pendingWF   []string
	cur         *FuncResult
	logOff      int
	cellCtr     int
	iterCtr     int
	pathCount   int
	stepCount   int

	Results []*FuncResult
	// trusted things that were used (library specs, trusted contracts, interface contracts)
	Assumed map[string]bool
	Opts    Options
}

type Options struct {
	TokenModel  bool // value-token model of perunio.Encode/Decode (C14 composite round trips)
	StreamModel bool // model reader contents as a stream (C14/C16); otherwise read buffers hold arbitrary bytes
	Overlay     map[string][]byte
	MaxPaths    int
	MaxInline   int
	Verbose     bool
}

// LogEntry is one element of the per-function solver script.
type LogEntry struct {
	Kind string // "push", "pop", "assume", "check"
	T    *Term
	Obl  *Obl
}

// Obl is one proof obligation.
type Obl struct {
	Name       string // stable name: pkg.Func#kind.k[@detail]
	Fn         string
	Kind       string
	Pos        string
	Desc       string
	PC         []*Term
	Goal       *Term
	Status     string // "", "unsat", "sat", "unknown", "timeout", "error"
	Solver     string
	Time       float64
	Model      string
	Trace      []TraceEv
	Canary     bool // must NOT be provable
	Seq        int
	Cross      string // status reported by the cross-check solver (thorough tier)
	ParamTerms map[string][]*Term
}

// FuncResult is everything produced for one function under verification.
type FuncResult struct {
	Key         string // pkgpath::key
	Fn          *ssa.Function
	Contract    *Contract
	Log         []LogEntry
	Obls        []*Obl
	Errors      []string // generator errors (out of subset etc.)
	Paths       int
	Returns     int // paths reaching a normal return
	TrivialPost int // postconditions that simplified to true during generation
	oblNames    map[string]int
	Bounded     bool
}

func (e *Engine) TB() *TB { return e.tb }

// Load loads packages from dir (the repository) with the verif tag and builds naive SSA.
func Load(dir string, patterns []string, opts Options) (*Engine, error) {
	cfg := &packages.Config{Mode: packages.LoadAllSyntax, Dir: dir, BuildFlags: []string{"-tags=verif"}, Overlay: opts.Overlay,
		Env: append(os.Environ(), "GOFLAGS=-mod=mod", "GOPROXY=off", "GOSUMDB=off", "GOTOOLCHAIN=local")}
	pkgs, err := packages.Load(cfg, patterns...)
	if err != nil {
		return nil, err
	}
	var errs []string
	packages.Visit(pkgs, nil, func(p *packages.Package) {
		for _, er := range p.Errors {
			errs = append(errs, er.Error())
		}
	})
	if len(errs) > 0 {
		return nil, fmt.Errorf("package load errors:\n%s", strings.Join(errs, "\n"))
	}
	prog, _ := ssautil.AllPackages(pkgs, ssa.NaiveForm|ssa.InstantiateGenerics)
	prog.Build()
	e := &Engine{tb: NewTB(), Prog: prog, Pkgs: map[string]*packages.Package{}, SSAPkgs: map[string]*ssa.Package{},
		Specs: NewSpecSet(), classSorts: map[string]Sort{}, classKinds: map[string]LeafKind{}, initAxioms: map[string]*Term{}, classRanges: map[string][2]*big.Int{}, strIDs: map[string]int64{"": 0}, typeTags: map[string]int64{}, tagTypes: map[int64]types.Type{},
		viewOrigins: map[int]viewOrigin{}, loops: map[*ssa.Function]*funcLoops{}, funcByKey: map[string]*ssa.Function{}, Assumed: map[string]bool{}, Opts: opts}
	if e.Opts.MaxPaths == 0 {
		e.Opts.MaxPaths = 4000
	}
	if e.Opts.MaxInline == 0 {
		e.Opts.MaxInline = 14
	}
	e.Sizes = types.SizesFor("gc", "amd64")
	packages.Visit(pkgs, nil, func(p *packages.Package) {
		e.Pkgs[p.PkgPath] = p
		if e.Fset == nil {
			e.Fset = p.Fset
		}
	})
	for _, sp := range prog.AllPackages() {
		e.SSAPkgs[sp.Pkg.Path()] = sp
	}
	// contract files: zz_verif_contracts*.go in every repo package
	var paths []string
	for path := range e.Pkgs {
		paths = append(paths, path)
	}
	sort.Strings(paths)
	for _, path := range paths {
		p := e.Pkgs[path]
		if !isRepoPkg(p.Types) {
			continue
		}
		for _, f := range p.GoFiles {
			if strings.HasPrefix(filepath.Base(f), "zz_verif_contracts") {
				b, err := os.ReadFile(f)
				if err != nil {
					return nil, err
				}
				if err := e.Specs.ParseContractText(path, f, string(b)); err != nil {
					return nil, err
				}
			}
		}
	}
	return e, nil
}

// FuncKey computes the contract key of an ssa function: "Name", "(T).Name", "(*T).Name", "Outer$1".
func FuncKey(f *ssa.Function) string {
	if f.Parent() != nil {
		return FuncKey(f.Parent()) + strings.TrimPrefix(f.Name(), f.Parent().Name())
	}
	if recv := f.Signature.Recv(); recv != nil {
		t := recv.Type()
		star := ""
		if p, ok := t.(*types.Pointer); ok {
			t = p.Elem()
			star = "*"
		}
		name := ""
		if n, ok := types.Unalias(t).(*types.Named); ok {
			name = n.Obj().Name()
		} else {
			name = t.String()
		}
		return "(" + star + name + ")." + f.Name()
	}
	return f.Name()
}

func funcPkgPath(f *ssa.Function) string {
	for f.Parent() != nil {
		f = f.Parent()
	}
	if f.Pkg != nil {
		return f.Pkg.Pkg.Path()
	}
	if recv := f.Signature.Recv(); recv != nil {
		t := recv.Type()
		if p, ok := t.(*types.Pointer); ok {
			t = p.Elem()
		}
		if n, ok := types.Unalias(t).(*types.Named); ok && n.Obj().Pkg() != nil {
			return n.Obj().Pkg().Path()
		}
	}
	if f.Object() != nil && f.Object().Pkg() != nil {
		return f.Object().Pkg().Path()
	}
	return ""
}

// FullKey is pkgpath::key.
func FullKey(f *ssa.Function) string { return funcPkgPath(f) + "::" + FuncKey(f) }

func (e *Engine) contractOf(f *ssa.Function) *Contract {
	if f.Synthetic != "" && f.Parent() == nil && !(f.Name() == "init") {
		// wrappers, thunks and bound-method closures are executed (they call the declared method, which may carry a contract)
		return nil
	}
	return e.Specs.Contracts[FullKey(f)]
}

// FindFunc resolves "pkgpath::key" to the ssa function.
func (e *Engine) FindFunc(full string) *ssa.Function {
	if f, ok := e.funcByKey[full]; ok {
		return f
	}
	i := strings.Index(full, "::")
	if i < 0 {
		return nil
	}
	pkg := e.SSAPkgs[full[:i]]
	if pkg == nil {
		return nil
	}
	var found *ssa.Function
	var visit func(f *ssa.Function)
	visit = func(f *ssa.Function) {
		if f == nil {
			return
		}
		e.funcByKey[FullKey(f)] = f
		for _, an := range f.AnonFuncs {
			visit(an)
		}
	}
	for _, m := range pkg.Members {
		switch m := m.(type) {
		case *ssa.Function:
			visit(m)
		case *ssa.Type:
			for _, T := range []types.Type{m.Type(), types.NewPointer(m.Type())} {
				ms := e.Prog.MethodSets.MethodSet(T)
				for j := 0; j < ms.Len(); j++ {
					fn := e.Prog.MethodValue(ms.At(j))
					if fn != nil && fn.Synthetic == "" {
						visit(fn)
					}
				}
			}
		}
	}
	found = e.funcByKey[full]
	return found
}

// ---- logging of the solver script ----

func (e *Engine) logAssume(t *Term) {
	if e.logOff > 0 || e.cur == nil {
		return
	}
	e.cur.Log = append(e.cur.Log, LogEntry{Kind: "assume", T: t})
}
func (e *Engine) logPush() {
	if e.logOff > 0 || e.cur == nil {
		return
	}
	e.cur.Log = append(e.cur.Log, LogEntry{Kind: "push"})
}
func (e *Engine) logPop() {
	if e.logOff > 0 || e.cur == nil {
		return
	}
	// drop empty push/pop pairs
	if n := len(e.cur.Log); n > 0 && e.cur.Log[n-1].Kind == "push" {
		e.cur.Log = e.cur.Log[:n-1]
		return
	}
	e.cur.Log = append(e.cur.Log, LogEntry{Kind: "pop"})
}

// oblige records an obligation: goal must hold under the current path condition.
// After recording, the goal is assumed (it has been checked).
func (e *Engine) oblige(st *State, kind, detail string, pos token.Pos, goal *Term, desc string) {
	if goal.IsTrue() {
		if e.logOff == 0 && e.cur != nil {
			e.cur.trivial(kind)
		}
		return
	}
	if e.logOff > 0 || e.cur == nil || st.Disc != nil {
		e.assumeQuiet(st, goal)
		return
	}
	// an equivalence with quantified sides is checked as two implications (each quantifier then has one polarity)
	if goal.Op == "=" && len(goal.Args) == 2 && goal.Args[0].Sort == SBool && termHasQuant(goal) {
		goal = e.tb.And(e.tb.Implies(goal.Args[0], goal.Args[1]), e.tb.Implies(goal.Args[1], goal.Args[0]))
	} else if goal.Op == "=>" && goal.Args[1].Op == "=" && len(goal.Args[1].Args) == 2 && goal.Args[1].Args[0].Sort == SBool && termHasQuant(goal.Args[1]) {
		a, b := goal.Args[1].Args[0], goal.Args[1].Args[1]
		goal = e.tb.Implies(goal.Args[0], e.tb.And(e.tb.Implies(a, b), e.tb.Implies(b, a)))
	}
	// a conjunction with quantified parts is checked conjunct by conjunct (smaller queries, better localisation)
	if goal.Op == "=>" && goal.Args[1].Op == "and" && len(goal.Args[1].Args) <= 48 {
		var cs []*Term
		for _, a := range goal.Args[1].Args {
			cs = append(cs, e.tb.Implies(goal.Args[0], a))
		}
		goal = e.tb.And(cs...)
	}
	if goal.Op == "and" && len(goal.Args) <= 48 {
		q := false
		for _, a := range goal.Args {
			if a.Op == "forall" || a.Op == "exists" || (a.Op == "=>" && (a.Args[1].Op == "forall" || a.Args[1].Op == "exists")) {
				q = true
			}
		}
		if q {
			for i, a := range goal.Args {
				d := detail
				if d != "" {
					d += "/"
				}
				cd := desc
				if os.Getenv("GOVC_CONJ") != "" {
					ts := a.String()
					if len(ts) > 600 {
						ts = ts[:600] + "..."
					}
					cd = desc + "  [conjunct: " + ts + "]"
				}
				e.oblige(st, kind, fmt.Sprintf("%sc%d", d, i+1), pos, a, cd)
			}
			return
		}
	}
	fr := e.cur
	base := fr.Key + "#" + kind
	if detail != "" {
		base += "@" + detail
	}
	fr.oblNames[base]++
	name := base
	if n := fr.oblNames[base]; n > 1 {
		name = fmt.Sprintf("%s~%d", base, n)
	}
	o := &Obl{Name: name, Fn: fr.Key, Kind: kind, Pos: posStr(e.Fset, pos), Desc: desc, PC: append([]*Term(nil), st.PC...), Goal: goal,
		Trace: append([]TraceEv(nil), st.Trace...), Seq: len(fr.Obls)}
	fr.Obls = append(fr.Obls, o)
	fr.Log = append(fr.Log, LogEntry{Kind: "check", T: goal, Obl: o})
	e.assume(st, goal)
}

func (e *Engine) assumeQuiet(st *State, t *Term) {
	if t.IsTrue() || st.pcSeen[t.ID] {
		return
	}
	st.pcSeen[t.ID] = true
	st.PC = append(st.PC, t)
	e.logAssume(t)
}

var trivialCounts = map[string]int{}

func (fr *FuncResult) trivial(kind string) {
	// an obligation whose goal simplified to true during generation (e.g. "result == nil" at "return nil")
	// ... or a call-site clause that holds syntactically (the argument is the very term the clause names)
	if kind == "post" || kind == "callsite" {
		fr.TrivialPost++
	}
}

func (e *Engine) genError(format string, args ...interface{}) {
	msg := fmt.Sprintf(format, args...)
	if e.cur != nil && e.logOff == 0 {
		for _, m := range e.cur.Errors {
			if m == msg {
				return
			}
		}
		e.cur.Errors = append(e.cur.Errors, msg)
	}
}

// strID interns a string literal.
func (e *Engine) strID(s string) int64 {
	if id, ok := e.strIDs[s]; ok {
		return id
	}
	id := int64(len(e.strIDs))
	e.strIDs[s] = id
	return id
}

// typeTag returns the interface tag of a concrete type.
func (e *Engine) typeTag(t types.Type) int64 {
	k := typeKey(t)
	if id, ok := e.typeTags[k]; ok {
		return id
	}
	id := int64(len(e.typeTags) + 1)
	e.typeTags[k] = id
	e.tagTypes[id] = t
	return id
}

// termHasQuant reports whether a quantifier occurs in t.
func termHasQuant(t *Term) bool {
	seen := map[*Term]bool{}
	var rec func(x *Term) bool
	rec = func(x *Term) bool {
		if x == nil || seen[x] {
			return false
		}
		seen[x] = true
		if x.Op == "forall" || x.Op == "exists" {
			return true
		}
		for _, a := range x.Args {
			if rec(a) {
				return true
			}
		}
		return false
	}
	return rec(t)
}
