package eng

import (
	"fmt"
	"os"
	"runtime/debug"
	"go/token"
	"go/types"
	"math/big"
	"sort"
	"strings"

	"golang.org/x/tools/go/ssa"
)

// Frame is one function activation on a path.
type Frame struct {
	Fn       *ssa.Function
	Regs     map[ssa.Value]Val
	Cells    map[*ssa.Alloc]int
	Active   map[*ssa.BasicBlock]*LoopCtx // loop headers already entered on this path
	Defers   []deferred
	Params   []Val
	Contract *Contract
	EntryAlloc *Term            // allocation counter when the frame was entered (fresh() in the frame's loop invariants)
	EntryHeap  map[string]*Term // heap when the frame was entered
}

type deferred struct {
	call *ssa.CallCommon
	fn   Val
	args []Val
	pos  token.Pos
}

// LoopCtx is remembered when a loop is entered so that the back edge can be checked.
type LoopCtx struct {
	Spec       *LoopSpec
	Ord        int
	EntryHeap  map[string]*Term
	EntryAlloc *Term
	Written    []string // heap classes havocked
	Info       *loopInfo
	Unrolled   int
}

type cellContent struct {
	V     Val
	Typ   types.Type
	Spill *Term // for local arrays spilled to the heap: backing array ref
}

// State is the symbolic state of one path.
type State struct {
	Frames  []*Frame
	Heap    map[string]*Term
	Alloc   *Term
	PC      []*Term
	pcSeen  map[int]bool
	Cells   map[int]cellContent
	Iters   map[int]iterState
	Ghost   map[string]*Term
	Written map[string]bool // heap classes written since entry of the function under verification
	Disc    *Discovery
	Trace   []TraceEv // primitive reads etc. for replay
	Depth   int
	Views   map[int]viewOrigin // slices that are views of arrays stored as tokens (write-back on modification)
}

type iterState struct {
	Map     *Term
	Visited *Term // (Array Int Bool)
	Dom     *Term // domain at range start
	KeyT    types.Type
	ValT    types.Type
	Last    *Term
	Count   *Term // keys yielded so far
	Len0    *Term // length of the map when the iteration started
}

// TraceEv is an input event used to rebuild concrete inputs.
type TraceEv struct {
	Kind string // "read"
	Bits int
	Val  *Term
	Len  *Term
	Note string
}

// Discovery collects the write set of a loop body.
type Discovery struct {
	Depth        int
	Loop         *loopInfo
	Cells        map[int]bool
	Classes      map[string]bool // classes written at objects that may have existed at loop entry
	FreshClasses map[string]bool // classes written only at objects allocated inside the body
	FreshBases   map[int]*big.Int
	Iters        map[int]bool
	Ghosts       map[string]bool
}

func (st *State) clone() *State {
	n := &State{
		Heap: make(map[string]*Term, len(st.Heap)), Alloc: st.Alloc,
		PC: append([]*Term(nil), st.PC...), pcSeen: make(map[int]bool, len(st.pcSeen)),
		Cells: make(map[int]cellContent, len(st.Cells)), Iters: make(map[int]iterState, len(st.Iters)),
		Ghost: make(map[string]*Term, len(st.Ghost)), Written: make(map[string]bool, len(st.Written)),
		Disc: st.Disc, Trace: append([]TraceEv(nil), st.Trace...), Depth: st.Depth,
		Views: make(map[int]viewOrigin, len(st.Views)),
	}
	for k, v := range st.Views {
		n.Views[k] = v
	}
	for k, v := range st.Heap {
		n.Heap[k] = v
	}
	for k, v := range st.pcSeen {
		n.pcSeen[k] = v
	}
	for k, v := range st.Cells {
		n.Cells[k] = v
	}
	for k, v := range st.Iters {
		n.Iters[k] = v
	}
	for k, v := range st.Ghost {
		n.Ghost[k] = v
	}
	for k, v := range st.Written {
		n.Written[k] = v
	}
	for _, f := range st.Frames {
		nf := &Frame{Fn: f.Fn, Regs: make(map[ssa.Value]Val, len(f.Regs)), Cells: make(map[*ssa.Alloc]int, len(f.Cells)),
			Active: make(map[*ssa.BasicBlock]*LoopCtx, len(f.Active)), Defers: append([]deferred(nil), f.Defers...), Params: f.Params, Contract: f.Contract, EntryAlloc: f.EntryAlloc, EntryHeap: f.EntryHeap}
		for k, v := range f.Regs {
			nf.Regs[k] = v
		}
		for k, v := range f.Cells {
			nf.Cells[k] = v
		}
		for k, v := range f.Active {
			nf.Active[k] = v
		}
		n.Frames = append(n.Frames, nf)
	}
	return n
}

func (st *State) top() *Frame { return st.Frames[len(st.Frames)-1] }

// ---- heap classes ----

// classSort remembers the sort of each heap class.
func (e *Engine) classSort(class string, s Sort) {
	if o, ok := e.classSorts[class]; ok {
		if o != s {
			panic(fmt.Sprintf("heap class %s used with sorts %s and %s", class, o, s))
		}
		return
	}
	e.classSorts[class] = s
}

// H returns the current term of a heap class (declaring the initial constant on first use).
func (e *Engine) H(st *State, class string, s Sort) *Term {
	if t, ok := st.Heap[class]; ok {
		return t
	}
	e.classSort(class, s)
	t := e.tb.Const("H!"+class, s)
	st.Heap[class] = t
	e.initAxiom(st, class, s)
	return t
}

func (e *Engine) setH(st *State, class string, t *Term) {
	e.classSort(class, t.Sort)
	prev := st.Heap[class]
	st.Heap[class] = t
	st.Written[class] = true
	if d := st.Disc; d != nil {
		// a write to an object allocated inside the loop body does not disturb objects that existed at loop entry
		if t.Op == "store" && prev != nil && (t.Args[0] == prev || (prev.Op == "store" && prev.Args[1] == t.Args[1] && prev.Args[0] == t.Args[0])) && d.isFresh(t.Args[1]) {
			d.FreshClasses[class] = true
			return
		}
		d.Classes[class] = true
	}
}

// isFresh: the reference was allocated after the discovery started (syntactic check on the allocation counter).
func (d *Discovery) isFresh(ref *Term) bool {
	b, k := splitOffset(ref)
	if b == nil {
		return false
	}
	min, ok := d.FreshBases[b.ID]
	return ok && k.Cmp(min) >= 0
}

// noteAlloc registers a new allocation-counter term as lying beyond the loop entry.
func (st *State) noteAlloc() {
	if st.Disc != nil {
		b, k := splitOffset(st.Alloc)
		if b != nil {
			if _, ok := st.Disc.FreshBases[b.ID]; !ok {
				st.Disc.FreshBases[b.ID] = k
			}
		}
	}
}

// heapIn looks a class up in a snapshot, defaulting to the initial constant.
func (e *Engine) heapIn(snap map[string]*Term, class string) *Term {
	if t, ok := snap[class]; ok {
		return t
	}
	s, ok := e.classSorts[class]
	if !ok {
		panic("heapIn: unknown class " + class)
	}
	return e.tb.Const("H!"+class, s)
}

func snapshot(h map[string]*Term) map[string]*Term {
	n := make(map[string]*Term, len(h))
	for k, v := range h {
		n[k] = v
	}
	return n
}

// ---- assumptions / obligations ----

func (e *Engine) assume(st *State, t *Term) {
	if t.IsTrue() {
		return
	}
	if t.Op == "and" {
		// conjuncts are asserted one by one (smaller assertions, better sharing and pruning)
		for _, a := range t.Args {
			e.assume(st, a)
		}
		return
	}
	if st.pcSeen[t.ID] {
		return
	}
	st.pcSeen[t.ID] = true
	st.noteConjuncts(e.tb, t)
	st.PC = append(st.PC, t)
	e.logAssume(t)
}

// noteConjuncts marks the conjuncts of an assumed formula as known.
func (st *State) noteConjuncts(tb *TB, t *Term) {
	if t.Op == "and" {
		for _, a := range t.Args {
			st.pcSeen[a.ID] = true
			st.noteConjuncts(tb, a)
		}
	}
	if t.Op == "not" && t.Args[0].Op == "or" {
		for _, a := range t.Args[0].Args {
			n := tb.Not(a)
			st.pcSeen[n.ID] = true
			st.noteConjuncts(tb, n)
		}
	}
}

// feasible is a cheap syntactic check.
func (st *State) infeasible() bool {
	for _, t := range st.PC {
		if t.IsFalse() {
			return true
		}
	}
	return false
}

// newRef allocates a fresh reference.
func (e *Engine) newRef(st *State) *Term {
	r := st.Alloc
	st.Alloc = e.tb.Add(st.Alloc, e.tb.Int(1))
	return r
}

// ---- well-formedness of loaded values ----

var maxLen = new(big.Int).Lsh(big.NewInt(1), 48)

// maxElems is the largest element count a backing array of this element type can have (runtime maxAlloc = 2^48 bytes).
func (e *Engine) maxElems(elT types.Type) *big.Int {
	sz := e.Sizes.Sizeof(elT)
	if sz <= 0 {
		sz = 1
	}
	return new(big.Int).Div(maxLen, big.NewInt(sz))
}

// maxExisting bounds the element count of slices that exist (well-formedness): 2^36 elements,
// a memory bound far below the runtime's allocation limit for every element size that occurs.
var maxExisting = new(big.Int).Lsh(big.NewInt(1), 36)

func (e *Engine) wfLeaf(st *State, l Leaf, t *Term) {
	tb := e.tb
	switch l.Kind {
	case LKInt:
		if lo, hi, ok := intRange(l.Typ); ok {
			if t.Op == "int" {
				return
			}
			blo, _ := new(big.Int).SetString(lo, 10)
			bhi, _ := new(big.Int).SetString(hi, 10)
			e.assume(st, tb.And(tb.Le(tb.BigInt(blo), t), tb.Le(t, tb.BigInt(bhi))))
		}
	case LKRef, LKSlArr:
		if t.Op == "int" {
			return
		}
		e.assume(st, tb.And(tb.Le(tb.Int(0), t), tb.Lt(t, st.Alloc)))
	case LKString, LKTag:
		if t.Op == "int" {
			return
		}
		e.assume(st, tb.Le(tb.Int(0), t))
	}
}

// wfVal adds the well-formedness facts of a whole value of type T.
func (e *Engine) wfVal(st *State, T types.Type, v Val) {
	if v.Elems != nil {
		return
	}
	ls := Leaves(T)
	tb := e.tb
	for i, l := range ls {
		if i >= len(v.T) {
			break
		}
		e.wfLeaf(st, l, v.T[i])
		if l.Kind == LKSlArr {
			arr, off, ln, cp := v.T[i], v.T[i+1], v.T[i+2], v.T[i+3]
			if arr.Op == "int" && ln.Op == "int" {
				continue
			}
			mx := maxExisting
			if sl, ok := l.Typ.Underlying().(*types.Slice); ok {
				if m2 := e.maxElems(sl.Elem()); m2.Cmp(mx) < 0 {
					mx = m2
				}
			}
			e.assume(st, tb.And(tb.Le(tb.Int(0), off), tb.Le(tb.Int(0), ln), tb.Le(ln, cp), tb.Le(tb.Add(off, cp), tb.BigInt(mx)),
				tb.Implies(tb.Eq(arr, tb.Int(0)), tb.And(tb.Eq(cp, tb.Int(0)), tb.Eq(off, tb.Int(0))))))
		}
		if l.Kind == LKTag {
			tag, val := v.T[i], v.T[i+1]
			if tag.Op == "int" {
				continue
			}
			e.assume(st, tb.Implies(tb.Eq(tag, tb.Int(0)), tb.Eq(val, tb.Int(0))))
		}
	}
}

// ---- zero and fresh values ----

func (e *Engine) zeroVal(T types.Type) Val {
	if a, ok := T.Underlying().(*types.Array); ok && a.Len() <= 64 && !opaqueNamed(T) {
		out := Val{Elems: make([]Val, a.Len())}
		for i := range out.Elems {
			out.Elems[i] = e.zeroVal(a.Elem())
		}
		return out
	}
	ls := Leaves(T)
	out := Val{T: make([]*Term, len(ls))}
	for i, l := range ls {
		if l.Sort == SBool {
			out.T[i] = e.tb.False()
		} else {
			out.T[i] = e.tb.Int(0)
		}
	}
	return out
}

func (e *Engine) freshVal(st *State, T types.Type, hint string) Val {
	ls := Leaves(T)
	out := Val{T: make([]*Term, len(ls))}
	for i, l := range ls {
		out.T[i] = e.tb.Fresh(hint+l.Path, l.Sort)
	}
	e.wfVal(st, T, out)
	return out
}

// arrayToken converts a local array value to its opaque token.
func (e *Engine) arrayToken(st *State, T types.Type, v Val) *Term {
	if v.Elems == nil {
		return v.T[0]
	}
	a := T.Underlying().(*types.Array)
	// all-zero arrays have token 0
	allZero := true
	for _, el := range v.Elems {
		for _, t := range e.flatten(st, a.Elem(), el).T {
			if !(t.Op == "int" && t.Int.Sign() == 0) && !t.IsFalse() {
				allZero = false
			}
		}
	}
	if allZero {
		return e.tb.Int(0)
	}
	var args []*Term
	for _, el := range v.Elems {
		for _, t := range e.flatten(st, a.Elem(), el).T {
			if t.Sort == SBool {
				t = e.tb.Ite(t, e.tb.Int(1), e.tb.Int(0))
			}
			args = append(args, t)
		}
	}
	if len(args) > 40 {
		return e.tb.Fresh("arrtok", SInt)
	}
	return e.tb.App("pack_"+typeKey(T), SInt, args...)
}

// flatten forces a value into leaf form (array values become tokens).
func (e *Engine) flatten(st *State, T types.Type, v Val) Val {
	if v.Elems != nil {
		if _, ok := T.Underlying().(*types.Array); ok {
			return Val{T: []*Term{e.arrayToken(st, T, v)}}
		}
	}
	return v
}

// ---- pointer resolution, load, store ----

func (e *Engine) ptrOf(p Val, pointee types.Type) *PtrX {
	if a := p.ann(""); a != nil {
		if px, ok := a.(*PtrX); ok {
			return px
		}
	}
	return &PtrX{Kind: PField, Ref: p.T[0], Root: pointee, Path: "", PType: pointee, Elem: -1}
}

func (e *Engine) objClass(root types.Type, path string, l Leaf) string {
	c := "F:" + typeKey(root) + path + l.Path
	e.noteKind(c, l)
	return c
}
func (e *Engine) elemClass(elemT types.Type, path string, l Leaf) string {
	c := "E:" + typeKey(elemT) + path + l.Path
	e.noteKind(c, l)
	return c
}

func (e *Engine) noteKind(class string, l Leaf) {
	if _, ok := e.classKinds[class]; !ok {
		e.classKinds[class] = l.Kind
		if l.Kind == LKSlLen || l.Kind == LKSlCap || l.Kind == LKSlOff {
			// slice headers stored in the heap: lengths, capacities and offsets are non-negative and bounded (type validity)
			e.classRanges[class] = [2]*big.Int{big.NewInt(0), maxExisting}
		}
		if l.Kind == LKInt {
			if lo, hi, ok := intRange(l.Typ); ok {
				blo, _ := new(big.Int).SetString(lo, 10)
				bhi, _ := new(big.Int).SetString(hi, 10)
				if blo.Sign() >= 0 {
					// unsigned element/field type: its range is part of the type validity of every heap state
					e.classRanges[class] = [2]*big.Int{blo, bhi}
				}
			}
		}
	}
}

// rangeAxiom: every value stored in the heap term h of an unsigned-integer class lies in the type's range.
func (e *Engine) rangeAxiom(class string, h *Term) *Term {
	rg, ok := e.classRanges[class]
	if !ok {
		return nil
	}
	tb := e.tb
	r := tb.BoundVar("r", SInt)
	switch h.Sort {
	case SArrI:
		v := tb.Select(h, r)
		return tb.Forall([]*Term{r}, tb.And(tb.Le(tb.BigInt(rg[0]), v), tb.Le(v, tb.BigInt(rg[1]))), []*Term{v})
	case SArr2I:
		i := tb.BoundVar("i", SInt)
		v := tb.Select(tb.Select(h, r), i)
		return tb.Forall([]*Term{r, i}, tb.And(tb.Le(tb.BigInt(rg[0]), v), tb.Le(v, tb.BigInt(rg[1]))), []*Term{v})
	}
	return nil
}

// initAxiom states the well-formedness of the initial heap for reference-valued
// classes: every reference stored in an object that existed at function entry
// is itself an object that existed at entry (or nil).
func (e *Engine) initAxiom(st *State, class string, s Sort) {
	k, ok := e.classKinds[class]
	if ok && (k == LKInt || k == LKSlLen || k == LKSlCap || k == LKSlOff) {
		if ax := e.rangeAxiom(class, e.tb.Const("H!"+class, s)); ax != nil {
			e.assumeQuiet(st, ax)
		}
		return
	}
	if !ok || (k != LKRef && k != LKSlArr) {
		return
	}
	if ax, ok := e.initAxioms[class]; ok {
		if ax != nil {
			e.assumeQuiet(st, ax)
		}
		return
	}
	tb := e.tb
	h0 := tb.Const("H!"+class, s)
	a0 := tb.Const("A0", SInt)
	r := tb.BoundVar("r", SInt)
	var ax *Term
	switch s {
	case SArrI:
		v := tb.Select(h0, r)
		ax = tb.Forall([]*Term{r}, tb.Implies(tb.And(tb.Le(tb.Int(0), r), tb.Lt(r, a0)), tb.And(tb.Le(tb.Int(0), v), tb.Lt(v, a0))), []*Term{v})
	case SArr2I:
		i := tb.BoundVar("i", SInt)
		v := tb.Select(tb.Select(h0, r), i)
		ax = tb.Forall([]*Term{r, i}, tb.Implies(tb.And(tb.Le(tb.Int(0), r), tb.Lt(r, a0)), tb.And(tb.Le(tb.Int(0), v), tb.Lt(v, a0))), []*Term{v})
	}
	e.initAxioms[class] = ax
	if ax != nil {
		e.assumeQuiet(st, ax)
	}
}
func globClass(g *ssa.Global, path string, l Leaf) string {
	return "G:" + g.Pkg.Pkg.Name() + "." + g.Name() + path + l.Path
}

// load reads a value of type T through pointer p.
func (e *Engine) load(st *State, p Val, T types.Type) Val {
	px := e.ptrOf(p, T)
	return e.loadPx(st, px, T)
}

func (e *Engine) loadPx(st *State, px *PtrX, T types.Type) Val {
	tb := e.tb
	switch px.Kind {
	case PLocal:
		c := st.Cells[px.Cell]
		if c.Spill != nil {
			at, isArr := c.Typ.Underlying().(*types.Array)
			if !isArr || opaqueNamed(c.Typ) {
				// a local object that escaped into the heap: it now lives at reference Spill
				return e.loadPx(st, &PtrX{Kind: PField, Ref: c.Spill, Root: c.Typ, Path: px.Path, Elem: -1}, T)
			}
			if px.Elem >= 0 {
				return e.loadPx(st, &PtrX{Kind: PElem, Ref: c.Spill, Idx: tb.Int(int64(px.Elem)), Root: at.Elem(), Path: px.Path, Elem: -1}, T)
			}
			// whole array from spilled storage: the token determined by its elements
			if len(Leaves(at.Elem())) == 1 && Leaves(at.Elem())[0].Sort == SInt && px.Path == "" {
				cl := e.elemClass(at.Elem(), "", Leaves(at.Elem())[0])
				row := tb.Select(e.H(st, cl, SArr2I), c.Spill)
				return Val{T: []*Term{tb.App("packr_"+typeKey(c.Typ), SInt, row, tb.Int(0), tb.Int(at.Len()))}}
			}
			return Val{T: []*Term{tb.Fresh("arrtok", SInt)}}
		}
		v := c.V
		t := c.Typ
		if px.Elem >= 0 {
			if v.Elems == nil {
				panic("load: element pointer into non-array cell")
			}
			v = v.Elems[px.Elem]
			t = t.Underlying().(*types.Array).Elem()
		}
		r, _ := subPath(v, t, px.Path)
		return r
	case PField:
		if isBigInt(T) && px.Path == "" {
			// loading a big.Int by value: opaque
			return Val{T: []*Term{tb.Select(e.H(st, "BigVal", SArrI), px.Ref)}}
		}
		ls := Leaves(T)
		out := Val{T: make([]*Term, len(ls))}
		for i, l := range ls {
			out.T[i] = tb.Select(e.H(st, e.objClass(px.Root, px.Path, l), ArrOf(l.Sort)), px.Ref)
		}
		e.wfVal(st, T, out)
		return out
	case PElem:
		ls := Leaves(T)
		out := Val{T: make([]*Term, len(ls))}
		for i, l := range ls {
			out.T[i] = tb.Select(tb.Select(e.H(st, e.elemClass(px.Root, px.Path, l), ArrOf(ArrOf(l.Sort))), px.Ref), px.Idx)
		}
		e.wfVal(st, T, out)
		return out
	case PGlobal:
		ls := Leaves(T)
		out := Val{T: make([]*Term, len(ls))}
		for i, l := range ls {
			out.T[i] = e.H(st, globClass(px.Glob, px.Path, l), l.Sort)
		}
		e.wfVal(st, T, out)
		return out
	}
	panic("load: bad pointer kind")
}

func (e *Engine) store(st *State, p Val, T types.Type, v Val) {
	px := e.ptrOf(p, T)
	e.storePx(st, px, T, v)
}

func (e *Engine) storePx(st *State, px *PtrX, T types.Type, v Val) {
	tb := e.tb
	switch px.Kind {
	case PLocal:
		c := st.Cells[px.Cell]
		if c.Spill != nil {
			at, isArr := c.Typ.Underlying().(*types.Array)
			if !isArr || opaqueNamed(c.Typ) {
				e.storePx(st, &PtrX{Kind: PField, Ref: c.Spill, Root: c.Typ, Path: px.Path, Elem: -1}, T, v)
				return
			}
			if px.Elem >= 0 {
				e.storePx(st, &PtrX{Kind: PElem, Ref: c.Spill, Idx: tb.Int(int64(px.Elem)), Root: at.Elem(), Path: px.Path, Elem: -1}, T, v)
				return
			}
			panic(e.unsupported("store of whole array into spilled local array"))
		}
		if px.Elem >= 0 {
			elT := c.Typ.Underlying().(*types.Array).Elem()
			if c.V.Elems == nil {
				panic("store: element pointer into non-array cell")
			}
			els := append([]Val(nil), c.V.Elems...)
			els[px.Elem] = setSubPath(els[px.Elem], elT, px.Path, v)
			c.V = Val{Elems: els}
		} else {
			if px.Path == "" {
				c.V = v
			} else {
				c.V = setSubPath(c.V, c.Typ, px.Path, e.flatten(st, T, v))
			}
		}
		st.Cells[px.Cell] = c
		if st.Disc != nil {
			st.Disc.Cells[px.Cell] = true
		}
	case PField:
		v = e.flatten(st, T, v)
		if isBigInt(T) && px.Path == "" {
			e.setH(st, "BigVal", tb.Store(e.H(st, "BigVal", SArrI), px.Ref, v.T[0]))
			return
		}
		ls := Leaves(T)
		if len(ls) != len(v.T) {
			panic(fmt.Sprintf("store: %d leaves for type %s, value has %d", len(ls), T, len(v.T)))
		}
		v = e.escape(st, T, v)
		for i, l := range ls {
			cl := e.objClass(px.Root, px.Path, l)
			e.setH(st, cl, tb.Store(e.H(st, cl, ArrOf(l.Sort)), px.Ref, v.T[i]))
		}
	case PElem:
		v = e.flatten(st, T, v)
		ls := Leaves(T)
		if len(ls) != len(v.T) {
			panic(fmt.Sprintf("store: %d leaves for type %s, value has %d", len(ls), T, len(v.T)))
		}
		v = e.escape(st, T, v)
		for i, l := range ls {
			cl := e.elemClass(px.Root, px.Path, l)
			h := e.H(st, cl, ArrOf(ArrOf(l.Sort)))
			e.setH(st, cl, tb.Store(h, px.Ref, tb.Store(tb.Select(h, px.Ref), px.Idx, v.T[i])))
		}
	case PGlobal:
		v = e.flatten(st, T, v)
		ls := Leaves(T)
		v = e.escape(st, T, v)
		for i, l := range ls {
			e.setH(st, globClass(px.Glob, px.Path, l), v.T[i])
		}
	}
}

// escape prepares a value for being stored into the heap: slices over local
// arrays are materialised; Go-side-only parts that cannot be represented
// (interior pointers) are rejected.
func (e *Engine) escape(st *State, T types.Type, v Val) Val {
	if v.Ann == nil {
		return v
	}
	out := Val{T: append([]*Term(nil), v.T...), Ann: map[string]Ann{}}
	ls := Leaves(T)
	for path, a := range v.Ann {
		switch x := a.(type) {
		case *PtrX:
			if x.Kind == PField && x.Path == "" {
				continue
			}
			if x.Kind == PLocal && x.Path == "" && x.Elem < 0 {
				// pointer to a local object: the object escapes, move it into the heap
				if _, isArr := st.Cells[x.Cell].Typ.Underlying().(*types.Array); !isArr {
					ref := e.spillObject(st, x.Cell)
					for i, l := range ls {
						if l.Path == path {
							out.T[i] = ref
						}
					}
					continue
				}
			}
			panic(e.unsupported("interior/local pointer stored into the heap (" + path + " of " + T.String() + ")"))
		case *SliceX:
			idx := -1
			for i, l := range ls {
				if l.Path == path+".arr" {
					idx = i
				}
			}
			if idx < 0 {
				panic("escape: slice leaf not found")
			}
			m := e.materialise(st, Val{T: v.T[idx : idx+4], Ann: map[string]Ann{"": x}}, ls[idx].Typ)
			copy(out.T[idx:idx+4], m.T)
		default:
			// IfaceX / FuncX: concrete information is dropped when the value goes through the heap
		}
	}
	out.Ann = nil
	return out
}

// unsupported builds the panic value for out-of-subset constructs.
type unsupportedErr struct{ msg string }

func (e *Engine) unsupported(msg string) unsupportedErr {
	if os.Getenv("GOVC_DEBUG") != "" && e.logOff == 0 {
		fmt.Fprintf(os.Stderr, "UNSUPPORTED: %s\n%s\n", msg, debug.Stack())
	}
	return unsupportedErr{msg}
}

// newObject allocates a zeroed heap object of type T and returns its reference.
func (e *Engine) newObject(st *State, T types.Type) *Term {
	r := e.newRef(st)
	if isBigInt(T) {
		e.setH(st, "BigVal", e.tb.Store(e.H(st, "BigVal", SArrI), r, e.tb.Int(0)))
		return r
	}
	z := e.zeroVal(T)
	z = e.flatten(st, T, z)
	e.storePx(st, &PtrX{Kind: PField, Ref: r, Root: T, Elem: -1}, T, z)
	return r
}

// materialise turns a slice over a local array into a heap slice.
func (e *Engine) materialise(st *State, v Val, sliceT types.Type) Val {
	a := v.ann("")
	sx, ok := a.(*SliceX)
	if !ok {
		return v
	}
	c := st.Cells[sx.Cell]
	arr := e.spill(st, sx.Cell)
	_ = c
	n := sx.Hi - sx.Lo
	tb := e.tb
	capN := int64(len(c.V.Elems) - sx.Lo)
	if c.V.Elems == nil {
		capN = c.Typ.Underlying().(*types.Array).Len() - int64(sx.Lo)
	}
	return Val{T: []*Term{arr, tb.Int(int64(sx.Lo)), tb.Int(int64(n)), tb.Int(capN)}}
}

// spillObject moves a local (lazily allocated) object into the heap and returns its reference.
func (e *Engine) spillObject(st *State, cell int) *Term {
	c := st.Cells[cell]
	if c.Spill != nil {
		return c.Spill
	}
	r := e.newRef(st)
	v := c.V
	c.Spill = r
	c.V = Val{}
	st.Cells[cell] = c
	if st.Disc != nil {
		st.Disc.Cells[cell] = true
	}
	e.storePx(st, &PtrX{Kind: PField, Ref: r, Root: c.Typ, Elem: -1}, c.Typ, v)
	return r
}

// plainPtr turns a pointer value into a plain reference (spilling a local object if necessary).
func (e *Engine) plainPtr(st *State, p Val) Val {
	px, ok := p.ann("").(*PtrX)
	if !ok {
		return p
	}
	if px.Kind == PField && px.Path == "" {
		return scalar(px.Ref)
	}
	if px.Kind == PLocal && px.Path == "" && px.Elem < 0 {
		if _, isArr := st.Cells[px.Cell].Typ.Underlying().(*types.Array); !isArr {
			return scalar(e.spillObject(st, px.Cell))
		}
	}
	return p
}

// spill moves a local array cell into heap storage and returns the backing array ref.
func (e *Engine) spill(st *State, cell int) *Term {
	c := st.Cells[cell]
	if c.Spill != nil {
		return c.Spill
	}
	at := c.Typ.Underlying().(*types.Array)
	arr := e.newRef(st)
	els := c.V.Elems
	v0 := c.V
	c.Spill = arr
	c.V = Val{}
	st.Cells[cell] = c
	if st.Disc != nil {
		st.Disc.Cells[cell] = true
	}
	if els == nil && len(v0.T) == 1 && len(Leaves(at.Elem())) == 1 && Leaves(at.Elem())[0].Sort == SInt {
		// the local holds an array value kept as a token: its elements are the token's elements
		tb := e.tb
		tok := v0.T[0]
		cl := e.elemClass(at.Elem(), "", Leaves(at.Elem())[0])
		row := tb.App("unpack_"+typeKey(c.Typ), SArrI, tok)
		e.setH(st, cl, tb.Store(e.H(st, cl, SArr2I), arr, row))
		e.assume(st, tb.Eq(tb.App("packr_"+typeKey(c.Typ), SInt, row, tb.Int(0), tb.Int(at.Len())), tok))
	}
	for i, el := range els {
		if sl, ok := at.Elem().Underlying().(*types.Slice); ok {
			el = e.materialise(st, el, sl)
		}
		elv := e.flatten(st, at.Elem(), el)
		// interface elements with boxed payloads keep only tag/val
		elv = Val{T: elv.T}
		e.storePx(st, &PtrX{Kind: PElem, Ref: arr, Idx: e.tb.Int(int64(i)), Root: at.Elem(), Elem: -1}, at.Elem(), elv)
	}
	return arr
}

// sortedKeys helper.
func sortedKeys(m map[string]bool) []string {
	var ks []string
	for k := range m {
		ks = append(ks, k)
	}
	sort.Strings(ks)
	return ks
}

func posStr(fset *token.FileSet, p token.Pos) string {
	if !p.IsValid() {
		return "?"
	}
	ps := fset.Position(p)
	return fmt.Sprintf("%s:%d", strings.TrimPrefix(ps.Filename, "/repo/"), ps.Line)
}

// knows reports whether t is syntactically implied by the path condition (t itself, or all its conjuncts, were assumed).
func (st *State) knows(tb *TB, t *Term) bool {
	if st.pcSeen[t.ID] {
		return true
	}
	if t.Op == "and" {
		for _, a := range t.Args {
			if !st.knows(tb, a) {
				return false
			}
		}
		return true
	}
	if t.Op == "not" && t.Args[0].Op == "or" {
		for _, a := range t.Args[0].Args {
			if !st.knows(tb, tb.Not(a)) {
				return false
			}
		}
		return true
	}
	return false
}
