package eng

import (
	"fmt"
	"strings"
	"unicode"
)

// ---- spec expression AST ----

type SExpr interface{}

type (
	SIdent struct{ Name string }
	SNum   struct{ V string }
	SStr   struct{ V string }
	SBin   struct {
		Op   string
		L, R SExpr
	}
	SUn struct {
		Op string
		X  SExpr
	}
	SSel struct {
		X    SExpr
		Name string
	}
	SIndex struct{ X, I SExpr }
	SSlice struct{ X, Lo, Hi SExpr }
	SCall  struct {
		Fn   SExpr
		Args []SExpr
	}
	// SSum is a finite sum over k = 0..N-1 of an integer-valued body.
	SSum struct {
		Var  string
		N    SExpr
		Body SExpr
	}
	SQuant struct {
		Forall bool
		Vars   []SParam
		Body   SExpr
		Pats   [][]SExpr
	}
	SOld   struct{ X SExpr }
	SCond  struct{ C, A, B SExpr } // c ? a : b
	SStar  struct{ X SExpr }       // pattern p.* / s[*]
	SParam struct{ Name, Type string }
)

type tok struct {
	k string // "id", "num", "str", "op", "eof"
	s string
}

func lexSpec(src string) ([]tok, error) {
	var out []tok
	i := 0
	for i < len(src) {
		c := src[i]
		switch {
		case c == ' ' || c == '\t' || c == '\n':
			i++
		case unicode.IsLetter(rune(c)) || c == '_' || c == '$':
			j := i + 1
			for j < len(src) && (unicode.IsLetter(rune(src[j])) || unicode.IsDigit(rune(src[j])) || src[j] == '_' || src[j] == '$') {
				j++
			}
			out = append(out, tok{"id", src[i:j]})
			i = j
		case unicode.IsDigit(rune(c)):
			j := i + 1
			for j < len(src) && (unicode.IsDigit(rune(src[j])) || src[j] == 'x' || (src[j] >= 'a' && src[j] <= 'f') || (src[j] >= 'A' && src[j] <= 'F')) {
				j++
			}
			out = append(out, tok{"num", src[i:j]})
			i = j
		case c == '"':
			j := i + 1
			for j < len(src) && src[j] != '"' {
				j++
			}
			if j >= len(src) {
				return nil, fmt.Errorf("unterminated string")
			}
			out = append(out, tok{"str", src[i+1 : j]})
			i = j + 1
		default:
			ops := []string{"<==>", "==>", "::", "==", "!=", "<=", ">=", "&&", "||", "&", "<", ">", "+", "-", "*", "/", "%", "!", "(", ")", "[", "]", ".", ",", ":", "?", "{", "}", "=", "@"}
			matched := false
			for _, o := range ops {
				if strings.HasPrefix(src[i:], o) {
					out = append(out, tok{"op", o})
					i += len(o)
					matched = true
					break
				}
			}
			if !matched {
				return nil, fmt.Errorf("unexpected character %q in spec %q", c, src)
			}
		}
	}
	out = append(out, tok{"eof", ""})
	return out, nil
}

type sparser struct {
	toks []tok
	p    int
	src  string
}

func (p *sparser) peek() tok { return p.toks[p.p] }
func (p *sparser) next() tok { t := p.toks[p.p]; p.p++; return t }
func (p *sparser) isOp(s string) bool {
	t := p.peek()
	return t.k == "op" && t.s == s
}
func (p *sparser) isID(s string) bool {
	t := p.peek()
	return t.k == "id" && t.s == s
}
func (p *sparser) expectOp(s string) {
	if !p.isOp(s) {
		panic(fmt.Sprintf("spec parse: expected %q at token %d (%q) in %q", s, p.p, p.peek().s, p.src))
	}
	p.p++
}

// ParseSpecExpr parses one spec expression.
func ParseSpecExpr(src string) (e SExpr, err error) {
	toks, err := lexSpec(src)
	if err != nil {
		return nil, err
	}
	p := &sparser{toks: toks, src: src}
	defer func() {
		if r := recover(); r != nil {
			err = fmt.Errorf("%v", r)
		}
	}()
	e = p.expr()
	if p.peek().k != "eof" {
		panic(fmt.Sprintf("spec parse: trailing tokens from %q in %q", p.peek().s, src))
	}
	return e, nil
}

func (p *sparser) expr() SExpr {
	if p.isID("sumof") {
		// sumof k int :: n :: body   =  body(0) + ... + body(n-1)
		p.next()
		name := p.next()
		if name.k != "id" {
			panic("spec parse: summation variable expected in " + p.src)
		}
		if !p.isOp("::") {
			p.typeStr()
		}
		p.expectOp("::")
		n := p.impl()
		p.expectOp("::")
		body := p.expr()
		return &SSum{Var: name.s, N: n, Body: body}
	}
	if p.isID("forall") || p.isID("exists") {
		fa := p.next().s == "forall"
		var vars []SParam
		for {
			name := p.next()
			if name.k != "id" {
				panic("spec parse: quantifier variable expected in " + p.src)
			}
			typ := ""
			if !p.isOp(",") {
				typ = p.typeStr()
			}
			vars = append(vars, SParam{name.s, typ})
			if p.isOp(",") {
				p.next()
				continue
			}
			break
		}
		for i := len(vars) - 2; i >= 0; i-- {
			if vars[i].Type == "" {
				vars[i].Type = vars[i+1].Type
			}
		}
		p.expectOp("::")
		var pats [][]SExpr
		for p.isOp("{") {
			p.next()
			var pat []SExpr
			for {
				pat = append(pat, p.expr())
				if p.isOp(",") {
					p.next()
					continue
				}
				break
			}
			p.expectOp("}")
			pats = append(pats, pat)
		}
		body := p.expr()
		return &SQuant{Forall: fa, Vars: vars, Body: body, Pats: pats}
	}
	return p.impl()
}

// typeStr collects tokens of a Go type expression up to ',' or '::' at depth 0.
func (p *sparser) typeStr() string {
	var sb strings.Builder
	depth := 0
	for {
		t := p.peek()
		if t.k == "eof" {
			break
		}
		if t.k == "op" && depth == 0 && (t.s == "," || t.s == "::" || t.s == ")" || t.s == "=") {
			break
		}
		if t.k == "op" && (t.s == "[" || t.s == "(") {
			depth++
		}
		if t.k == "op" && (t.s == "]" || t.s == ")") {
			depth--
		}
		sb.WriteString(t.s)
		if t.k == "id" && (t.s == "map" || t.s == "chan") {
			// no space needed
		}
		p.next()
	}
	return sb.String()
}

func (p *sparser) impl() SExpr {
	l := p.cond()
	if p.isOp("==>") {
		p.next()
		r := p.implRHS()
		return &SBin{"==>", l, r}
	}
	if p.isOp("<==>") {
		p.next()
		var r SExpr
		if p.isID("forall") || p.isID("exists") {
			r = p.expr()
		} else {
			r = p.cond()
		}
		return &SBin{"<==>", l, r}
	}
	return l
}

func (p *sparser) implRHS() SExpr {
	if p.isID("forall") || p.isID("exists") {
		return p.expr()
	}
	return p.impl()
}

func (p *sparser) cond() SExpr {
	c := p.or()
	if p.isOp("?") {
		p.next()
		a := p.cond()
		p.expectOp(":")
		b := p.cond()
		return &SCond{c, a, b}
	}
	return c
}

func (p *sparser) or() SExpr {
	l := p.and()
	for p.isOp("||") {
		p.next()
		r := p.and()
		l = &SBin{"||", l, r}
	}
	return l
}

func (p *sparser) and() SExpr {
	l := p.cmp()
	for p.isOp("&&") {
		p.next()
		var r SExpr
		if p.isID("forall") || p.isID("exists") {
			r = p.expr()
		} else {
			r = p.cmp()
		}
		l = &SBin{"&&", l, r}
	}
	return l
}

func isCmp(s string) bool {
	switch s {
	case "==", "!=", "<", "<=", ">", ">=":
		return true
	}
	return false
}

func (p *sparser) cmp() SExpr {
	l := p.add()
	var res SExpr
	for p.peek().k == "op" && isCmp(p.peek().s) {
		op := p.next().s
		r := p.add()
		c := &SBin{op, l, r}
		if res == nil {
			res = c
		} else {
			res = &SBin{"&&", res, c}
		}
		l = r
	}
	if p.isID("in") {
		p.next()
		r := p.add()
		return &SCall{Fn: &SIdent{"has"}, Args: []SExpr{r, l}}
	}
	if res == nil {
		return l
	}
	return res
}

func (p *sparser) add() SExpr {
	l := p.mul()
	for p.isOp("+") || p.isOp("-") {
		op := p.next().s
		r := p.mul()
		l = &SBin{op, l, r}
	}
	return l
}

func (p *sparser) mul() SExpr {
	l := p.unary()
	for p.isOp("*") || p.isOp("/") || p.isOp("%") {
		// "p.*" handled in postfix; here '*' is multiplication
		op := p.next().s
		r := p.unary()
		l = &SBin{op, l, r}
	}
	return l
}

func (p *sparser) unary() SExpr {
	if p.isOp("!") {
		p.next()
		return &SUn{"!", p.unary()}
	}
	if p.isOp("-") {
		p.next()
		return &SUn{"-", p.unary()}
	}
	if p.isOp("*") {
		p.next()
		return &SUn{"*", p.unary()}
	}
	if p.isOp("&") {
		p.next()
		return &SUn{"&", p.unary()}
	}
	return p.postfix()
}

func (p *sparser) postfix() SExpr {
	x := p.primary()
	for {
		switch {
		case p.isOp("."):
			p.next()
			if p.isOp("*") {
				p.next()
				x = &SStar{x}
				continue
			}
			if p.isOp("(") { // type assertion x.(T): unsupported, parse as call to "assert"
				panic("spec parse: type assertions unsupported in " + p.src)
			}
			n := p.next()
			if n.k != "id" {
				panic("spec parse: field name expected in " + p.src)
			}
			x = &SSel{x, n.s}
		case p.isOp("["):
			p.next()
			if p.isOp("*") {
				p.next()
				p.expectOp("]")
				x = &SStar{x}
				continue
			}
			var lo SExpr
			if !p.isOp(":") {
				lo = p.expr()
			}
			if p.isOp(":") {
				p.next()
				var hi SExpr
				if !p.isOp("]") {
					hi = p.expr()
				}
				p.expectOp("]")
				x = &SSlice{x, lo, hi}
			} else {
				p.expectOp("]")
				x = &SIndex{x, lo}
			}
		case p.isOp("("):
			p.next()
			var args []SExpr
			for !p.isOp(")") {
				args = append(args, p.expr())
				if p.isOp(",") {
					p.next()
				}
			}
			p.expectOp(")")
			if id, ok := x.(*SIdent); ok && id.Name == "old" && len(args) == 1 {
				x = &SOld{args[0]}
			} else {
				x = &SCall{x, args}
			}
		default:
			return x
		}
	}
}

func (p *sparser) primary() SExpr {
	t := p.next()
	switch t.k {
	case "id":
		return &SIdent{t.s}
	case "num":
		return &SNum{t.s}
	case "str":
		return &SStr{t.s}
	case "op":
		if t.s == "(" {
			e := p.expr()
			p.expectOp(")")
			return e
		}
	}
	panic(fmt.Sprintf("spec parse: unexpected token %q in %q", t.s, p.src))
}

// ---- contract files ----

// Contract is the specification attached to one function.
type Contract struct {
	Key       string // function key, e.g. "(*machine).AddSig" or "CloneBals"
	Pkg       string // package path
	Requires  []Clause
	Ensures   []Clause
	Modifies  []Clause // each clause: a location pattern
	ModAny    bool     // "modifies *": no frame
	Loops     map[int]*LoopSpec
	InlinedLoops map[string]*LoopSpec // "<callee key>.<N>" -> spec for loop N of that callee when it is inlined into this function
	CallSites []CallSiteSpec
	CutAfter  string
	Inline    bool
	TokenModel bool           // verify this function with the value-token model of perunio.Encode/Decode
	Inlines   map[string]bool // callees whose real body is used in this function although they carry a contract
	NoFrame   bool // the frame (modifies) of this function is assumed, not checked (listed as an assumption)
	Trusted   bool
	Pure      bool // no heap effects at all; result is a function of arguments and read heap
	Bounded   int
	Panics    []Clause // documented panics: condition under which panicking is allowed
	Assumes   []Clause // explicit assumptions (listed in evidence)
	Results   []string // names for results when unnamed in source
	File      string
	Line      int
	Used      bool
}

// CallSiteSpec is an obligation on every call of Callee inside the function carrying the contract.
type CallSiteSpec struct {
	Callee string
	Clause Clause
	Hits   int
}

type LoopSpec struct {
	N          int
	Invariants []Clause
	Modifies   []Clause
	ModAny     bool
	HasMod     bool
	ModFresh   bool // "modifies fresh": locations of objects allocated since function entry may change
	Unroll     int
	Records    []RecordSpec
}

// RecordSpec: "record NAME = expr" keeps, in the ghost array rec("NAME", .), the value of expr at the loop head of every
// iteration (index: the number of completed iterations, $i), and at loop exit (index: the total number of iterations).
type RecordSpec struct {
	Name string
	E    Clause
}

type Clause struct {
	Src     string
	E       SExpr
	File    string
	Line    int
	Name    string // optional label
	Trusted bool   // ensures only: assumed at call sites, not checked against the body (listed as an assumption)
}

// PredDef is a spec-level definition (macro).
type PredDef struct {
	Name   string
	Params []SParam
	Body   SExpr
	Pkg    string
}

// GhostFn is an uninterpreted spec function.
type GhostFn struct {
	Name   string
	Params []SParam
	Ret    string
	Pkg    string
}

// IfaceContract holds method contracts of an interface.
type IfaceContract struct {
	Name    string // e.g. "wallet.Address"
	Methods map[string]*Contract
}

// GlobalInv is an invariant over package-level variables.
type GlobalInv struct {
	Pkg    string
	Clause Clause
}

// SpecFile is everything parsed from the contract files of one package.
type SpecSet struct {
	Contracts  map[string]*Contract // key: pkgpath + "::" + Key
	Preds      map[string]*PredDef  // key: name (global namespace; pkg-qualified lookups fall back to bare)
	Ghosts     map[string]*GhostFn
	Axioms     []GlobalInv
	Globals    []GlobalInv
	EnvAssumes []GlobalInv
	Sealed     map[string]bool
	Ifaces     map[string]*IfaceContract
	Lemmas     []*Lemma
	Codecs     map[string]*CodecDecl // key: pkgpath + "::" + type name
	CodecFns   map[string]*CodecDecl // key: pkgpath + "::" + function name (encoder and decoder functions)
}

// CodecDecl: "codec T wf P eq Q by F" - the round trip of type T's Encode/Decode methods is proved by the lemma function F:
// for every value x with P(x), decoding what T's encoder wrote yields y with Q(y, x), fails only if the reader fails and consumes
// exactly what was written. In the lemma functions of other types (token model) a nested T is therefore one summary token.
type CodecDecl struct {
	Type, WF, Eq, By string
	Enc, Dec         string // codecfn: names of the encoder and decoder functions
	Pkg              string
	Rejects          bool // set from the lemma's contract: its "fails only if" clause mentions rejected(r)
	MayReject        bool // the lemma has no "fails only if the reader fails" clause: the decoder may refuse (resolver, validating constructor)
}

type Lemma struct {
	Name   string
	Pkg    string
	Params []SParam
	Req    []Clause
	Ens    []Clause
	Induct string
}

func NewSpecSet() *SpecSet {
	return &SpecSet{Contracts: map[string]*Contract{}, Preds: map[string]*PredDef{}, Ghosts: map[string]*GhostFn{}, Ifaces: map[string]*IfaceContract{}, Sealed: map[string]bool{}}
}

var clauseKeywords = map[string]bool{
	"pred": true, "ghost": true, "axiom": true, "func": true, "requires": true, "ensures": true,
	"modifies": true, "loop": true, "invariant": true, "inline": true, "trusted": true, "bounded": true,
	"interface": true, "global": true, "assume": true, "trustedensures": true, "lemma": true, "panics": true, "pure": true,
	"method": true, "end": true, "results": true, "unroll": true, "envassume": true, "noframe": true, "sealed": true, "callsite": true, "cutafter": true, "inlines": true, "record": true, "tokenmodel": true, "codec": true, "codecfn": true,
}

// ParseContractText parses the //@ lines of a contract file.
func (ss *SpecSet) ParseContractText(pkgPath, file, text string) error {
	type line struct {
		s string
		n int
	}
	var clauses []line
	for i, raw := range strings.Split(text, "\n") {
		t := strings.TrimSpace(raw)
		if !strings.HasPrefix(t, "//@") {
			continue
		}
		body := strings.TrimSpace(t[3:])
		if body == "" {
			continue
		}
		if idx := strings.Index(body, " //"); idx >= 0 {
			body = strings.TrimSpace(body[:idx])
		}
		first := body
		if j := strings.IndexAny(body, " \t("); j >= 0 {
			first = body[:j]
		}
		if clauseKeywords[first] || len(clauses) == 0 {
			clauses = append(clauses, line{body, i + 1})
		} else {
			clauses[len(clauses)-1].s += " " + body
		}
	}
	var cur *Contract
	var curLoop *LoopSpec
	var curIface *IfaceContract
	mk := func(src string, ln int) (Clause, error) {
		name := ""
		// optional label: "name: expr" where name is an identifier followed by ": " (not "::")
		if j := strings.Index(src, ": "); j > 0 && !strings.Contains(src[:j], " ") && !strings.HasPrefix(src[j:], "::") && isIdent(src[:j]) {
			name = src[:j]
			src = strings.TrimSpace(src[j+1:])
		}
		e, err := ParseSpecExpr(src)
		if err != nil {
			return Clause{}, fmt.Errorf("%s:%d: %v", file, ln, err)
		}
		return Clause{Src: src, E: e, File: file, Line: ln, Name: name}, nil
	}
	for _, c := range clauses {
		kw := c.s
		rest := ""
		if j := strings.IndexAny(c.s, " \t"); j >= 0 {
			kw = c.s[:j]
			rest = strings.TrimSpace(c.s[j:])
		}
		switch kw {
		case "pred":
			// pred name(params) = expr
			eq := strings.Index(rest, ") =")
			if eq < 0 {
				return fmt.Errorf("%s:%d: malformed pred", file, c.n)
			}
			head := rest[:eq+1]
			bodySrc := strings.TrimSpace(rest[eq+3:])
			name, params, err := parseHead(head)
			if err != nil {
				return fmt.Errorf("%s:%d: %v", file, c.n, err)
			}
			e, err := ParseSpecExpr(bodySrc)
			if err != nil {
				return fmt.Errorf("%s:%d: %v", file, c.n, err)
			}
			if prev, dup := ss.Preds[name]; dup {
				return fmt.Errorf("%s:%d: pred %s is already defined (package %s): predicate names are global", file, c.n, name, prev.Pkg)
			}
			ss.Preds[name] = &PredDef{Name: name, Params: params, Body: e, Pkg: pkgPath}
			cur, curLoop = nil, nil
		case "ghost":
			// ghost func name(params) ret
			rest = strings.TrimPrefix(rest, "func ")
			cp := strings.LastIndex(rest, ")")
			name, params, err := parseHead(rest[:cp+1])
			if err != nil {
				return fmt.Errorf("%s:%d: %v", file, c.n, err)
			}
			ss.Ghosts[name] = &GhostFn{Name: name, Params: params, Ret: strings.TrimSpace(rest[cp+1:]), Pkg: pkgPath}
			cur, curLoop = nil, nil
		case "axiom":
			cl, err := mk(rest, c.n)
			if err != nil {
				return err
			}
			ss.Axioms = append(ss.Axioms, GlobalInv{pkgPath, cl})
			cur, curLoop = nil, nil
		case "global":
			cl, err := mk(rest, c.n)
			if err != nil {
				return err
			}
			ss.Globals = append(ss.Globals, GlobalInv{pkgPath, cl})
			cur, curLoop = nil, nil
		case "codec":
			f := strings.Fields(rest)
			mayReject := false
			if len(f) == 8 && f[7] == "mayreject" {
				mayReject = true
				f = f[:7]
			}
			if len(f) != 7 || f[1] != "wf" || f[3] != "eq" || f[5] != "by" {
				return fmt.Errorf("%s:%d: codec needs 'T wf P eq Q by F [mayreject]'", file, c.n)
			}
			if ss.Codecs == nil {
				ss.Codecs = map[string]*CodecDecl{}
			}
			ss.Codecs[pkgPath+"::"+f[0]] = &CodecDecl{Type: f[0], WF: f[2], Eq: f[4], By: f[6], Pkg: pkgPath, MayReject: mayReject}
			cur, curLoop = nil, nil
		case "codecfn":
			// codecfn ENC DEC wf P eq Q by F [mayreject]: like codec, for an encoder/decoder pair of package functions
			// ENC(w, v) / DEC(r, &v) where the decoder fills the elements of the slice it is given
			f := strings.Fields(rest)
			mayReject := false
			if len(f) == 9 && f[8] == "mayreject" {
				mayReject = true
				f = f[:8]
			}
			if len(f) != 8 || f[2] != "wf" || f[4] != "eq" || f[6] != "by" {
				return fmt.Errorf("%s:%d: codecfn needs 'ENC DEC wf P eq Q by F [mayreject]'", file, c.n)
			}
			if ss.CodecFns == nil {
				ss.CodecFns = map[string]*CodecDecl{}
			}
			cd := &CodecDecl{Type: f[0], Enc: f[0], Dec: f[1], WF: f[3], Eq: f[5], By: f[7], Pkg: pkgPath, MayReject: mayReject}
			ss.CodecFns[pkgPath+"::"+f[0]] = cd
			ss.CodecFns[pkgPath+"::"+f[1]] = cd
			cur, curLoop = nil, nil
		case "sealed":
			// closed-world interface: its implementations are exactly the types of the loaded repository packages that implement it
			ss.Sealed[qualify(pkgPath, rest)] = true
			cur, curLoop = nil, nil
		case "envassume":
			// assumption about start-up configuration (registries, generator functions): assumed, never checked, always listed
			cl, err := mk(rest, c.n)
			if err != nil {
				return err
			}
			ss.EnvAssumes = append(ss.EnvAssumes, GlobalInv{pkgPath, cl})
			cur, curLoop = nil, nil
		case "interface":
			curIface = &IfaceContract{Name: rest, Methods: map[string]*Contract{}}
			ss.Ifaces[qualify(pkgPath, rest)] = curIface
			cur, curLoop = nil, nil
		case "method":
			if curIface == nil {
				return fmt.Errorf("%s:%d: method outside interface", file, c.n)
			}
			cur = &Contract{Key: rest, Pkg: pkgPath, Loops: map[int]*LoopSpec{}, File: file, Line: c.n}
			curIface.Methods[rest] = cur
			curLoop = nil
		case "end":
			curIface, cur, curLoop = nil, nil, nil
		case "func":
			curIface = nil
			cur = &Contract{Key: rest, Pkg: pkgPath, Loops: map[int]*LoopSpec{}, File: file, Line: c.n}
			k := pkgPath + "::" + rest
			if _, dup := ss.Contracts[k]; dup {
				return fmt.Errorf("%s:%d: duplicate contract for %s", file, c.n, k)
			}
			ss.Contracts[k] = cur
			curLoop = nil
		case "requires", "ensures", "panics", "assume", "trustedensures":
			if cur == nil {
				return fmt.Errorf("%s:%d: %s outside func", file, c.n, kw)
			}
			cl, err := mk(rest, c.n)
			if err != nil {
				return err
			}
			switch kw {
			case "requires":
				cur.Requires = append(cur.Requires, cl)
			case "ensures":
				cur.Ensures = append(cur.Ensures, cl)
			case "trustedensures":
				cl.Trusted = true
				cur.Ensures = append(cur.Ensures, cl)
			case "panics":
				cur.Panics = append(cur.Panics, cl)
			case "assume":
				cur.Assumes = append(cur.Assumes, cl)
			}
		case "modifies":
			if cur == nil {
				return fmt.Errorf("%s:%d: modifies outside func", file, c.n)
			}
			if rest == "*" {
				if curLoop != nil {
					curLoop.ModAny = true
					curLoop.HasMod = true
				} else {
					cur.ModAny = true
				}
				continue
			}
			for _, part := range splitTop(rest) {
				if strings.TrimSpace(part) == "fresh" && curLoop != nil {
					// every location of an object allocated since the entry of the verified function
					curLoop.ModFresh = true
					curLoop.HasMod = true
					continue
				}
				cl, err := mk(part, c.n)
				if err != nil {
					return err
				}
				if curLoop != nil {
					curLoop.Modifies = append(curLoop.Modifies, cl)
					curLoop.HasMod = true
				} else {
					cur.Modifies = append(cur.Modifies, cl)
				}
			}
			if rest == "" && curLoop != nil {
				curLoop.HasMod = true
			}
		case "loop":
			if cur == nil {
				return fmt.Errorf("%s:%d: loop outside func", file, c.n)
			}
			var n int
			if i := strings.LastIndexByte(rest, '.'); i > 0 {
				// "loop <callee key>.<N>": invariants for loop N of an inlined callee, in the context of this function
				fmt.Sscanf(rest[i+1:], "%d", &n)
				if n <= 0 {
					return fmt.Errorf("%s:%d: loop needs ordinal >= 1", file, c.n)
				}
				curLoop = &LoopSpec{N: n}
				if cur.InlinedLoops == nil {
					cur.InlinedLoops = map[string]*LoopSpec{}
				}
				cur.InlinedLoops[strings.TrimSpace(rest[:i])+"."+fmt.Sprint(n)] = curLoop
				continue
			}
			fmt.Sscanf(rest, "%d", &n)
			if n <= 0 {
				return fmt.Errorf("%s:%d: loop needs ordinal >= 1", file, c.n)
			}
			curLoop = &LoopSpec{N: n}
			cur.Loops[n] = curLoop
		case "invariant":
			if curLoop == nil {
				return fmt.Errorf("%s:%d: invariant outside loop", file, c.n)
			}
			cl, err := mk(rest, c.n)
			if err != nil {
				return err
			}
			curLoop.Invariants = append(curLoop.Invariants, cl)
		case "record":
			if curLoop == nil {
				return fmt.Errorf("%s:%d: record outside loop", file, c.n)
			}
			j := strings.Index(rest, "=")
			if j < 0 {
				return fmt.Errorf("%s:%d: record needs 'NAME = expr'", file, c.n)
			}
			cl, err := mk(strings.TrimSpace(rest[j+1:]), c.n)
			if err != nil {
				return err
			}
			curLoop.Records = append(curLoop.Records, RecordSpec{Name: strings.TrimSpace(rest[:j]), E: cl})
		case "unroll":
			if curLoop == nil {
				return fmt.Errorf("%s:%d: unroll outside loop", file, c.n)
			}
			fmt.Sscanf(rest, "%d", &curLoop.Unroll)
		case "callsite":
			// callsite <callee key> : <expr over the callee's parameter names and this function's parameters>
			// obligation at every call of the callee inside this function (arguments and call context)
			if cur == nil {
				return fmt.Errorf("%s:%d: callsite outside func", file, c.n)
			}
			j := strings.Index(rest, " : ")
			if j < 0 {
				return fmt.Errorf("%s:%d: callsite needs '<callee> : <expr>'", file, c.n)
			}
			cl, err := mk(strings.TrimSpace(rest[j+3:]), c.n)
			if err != nil {
				return err
			}
			cur.CallSites = append(cur.CallSites, CallSiteSpec{Callee: strings.TrimSpace(rest[:j]), Clause: cl})
		case "cutafter":
			// the function is verified up to (and including) its first call of this callee on each path; the rest is out of scope
			cur.CutAfter = rest
		case "inline":
			cur.Inline = true
		case "tokenmodel":
			cur.TokenModel = true
		case "inlines":
			// inlines f, g: inside this function the listed callees are executed from their real bodies, not used through their contracts
			if cur.Inlines == nil {
				cur.Inlines = map[string]bool{}
			}
			for _, c := range strings.Split(rest, ",") {
				if c = strings.TrimSpace(c); c != "" {
					cur.Inlines[c] = true
				}
			}
		case "noframe":
			cur.NoFrame = true
		case "trusted":
			cur.Trusted = true
		case "pure":
			cur.Pure = true
		case "results":
			for _, r := range strings.Split(rest, ",") {
				cur.Results = append(cur.Results, strings.TrimSpace(r))
			}
		case "bounded":
			fmt.Sscanf(rest, "%d", &cur.Bounded)
		case "lemma":
			// lemma name(params) [by induction on x]; followed by requires/ensures — parsed as contract-like
			head := rest
			ind := ""
			if j := strings.Index(rest, " by induction on "); j >= 0 {
				head = rest[:j]
				ind = strings.TrimSpace(rest[j+len(" by induction on "):])
			}
			name, params, err := parseHead(head)
			if err != nil {
				return fmt.Errorf("%s:%d: %v", file, c.n, err)
			}
			lm := &Lemma{Name: name, Pkg: pkgPath, Params: params, Induct: ind}
			ss.Lemmas = append(ss.Lemmas, lm)
			// reuse cur to collect requires/ensures
			cur = &Contract{Key: "lemma " + name, Pkg: pkgPath, Loops: map[int]*LoopSpec{}, File: file, Line: c.n}
			lmRef := lm
			_ = lmRef
			ss.Contracts[pkgPath+"::lemma "+name] = cur
			curLoop = nil
		default:
			return fmt.Errorf("%s:%d: unknown clause %q", file, c.n, kw)
		}
	}
	return nil
}

func isIdent(s string) bool {
	if s == "" {
		return false
	}
	for i, r := range s {
		if !(unicode.IsLetter(r) || r == '_' || (i > 0 && unicode.IsDigit(r))) {
			return false
		}
	}
	return true
}

func qualify(pkgPath, name string) string {
	if strings.Contains(name, ".") {
		return name
	}
	// same convention as pkgShort: path below the module root with "/" replaced by "_"
	return strings.ReplaceAll(strings.TrimPrefix(pkgPath, "perun.network/go-perun/"), "/", "_") + "." + name
}

// parseHead parses "name(a T, b U)".
func parseHead(s string) (string, []SParam, error) {
	s = strings.TrimSpace(s)
	op := strings.Index(s, "(")
	if op < 0 || !strings.HasSuffix(s, ")") {
		return "", nil, fmt.Errorf("malformed head %q", s)
	}
	name := strings.TrimSpace(s[:op])
	inner := s[op+1 : len(s)-1]
	var params []SParam
	for _, part := range splitTop(inner) {
		part = strings.TrimSpace(part)
		if part == "" {
			continue
		}
		j := strings.IndexAny(part, " \t")
		if j < 0 {
			params = append(params, SParam{Name: part, Type: ""})
			continue
		}
		params = append(params, SParam{Name: part[:j], Type: strings.TrimSpace(part[j:])})
	}
	// Go-style "a, b T": fill missing types from the right
	for i := len(params) - 2; i >= 0; i-- {
		if params[i].Type == "" {
			params[i].Type = params[i+1].Type
		}
	}
	return name, params, nil
}

// splitTop splits at commas not nested in brackets.
func splitTop(s string) []string {
	var out []string
	depth := 0
	last := 0
	for i, r := range s {
		switch r {
		case '(', '[', '{':
			depth++
		case ')', ']', '}':
			depth--
		case ',':
			if depth == 0 {
				out = append(out, strings.TrimSpace(s[last:i]))
				last = i + 1
			}
		}
	}
	if strings.TrimSpace(s[last:]) != "" {
		out = append(out, strings.TrimSpace(s[last:]))
	}
	return out
}
