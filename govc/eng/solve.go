package eng

import (
	"sort"
	"bytes"
	"context"
	"fmt"
	"os"
	"os/exec"
	"path/filepath"
	"strings"
	"sync"
	"time"
)

// SolveOpts configures discharge.
type SolveOpts struct {
	OutDir     string
	TimeoutMS  int // per check-sat
	Jobs       int
	Portfolio  bool // re-run failures standalone on all solvers
	CrossCheck bool // thorough: confirm every unsat by a second solver
}

const smtPrelude = `(set-option :print-success false)
(set-logic ALL)
`

// idxAxiom defines the element-position function (see TB.Idx).
const idxAxiom = "(assert (forall ((o Int) (i Int)) (! (= (idx o i) (+ o i)) :pattern ((idx o i)))))\n"

// getbitAxiom: zero has no bits set.
const getbitAxiom = "(assert (forall ((c Int)) (! (= (getbit 0 c) 0) :pattern ((getbit 0 c)))))\n" +
	"(assert (forall ((a Int) (c Int)) (! (and (<= 0 (getbit a c)) (<= (getbit a c) 1)) :pattern ((getbit a c)))))\n"

// logNode is the fork tree of a function's log: entries first, then the alternatives.
type logNode struct {
	entries  []LogEntry
	children []*logNode
	checks   int // checks in the whole subtree
}

func buildLogTree(log []LogEntry) *logNode {
	root := &logNode{}
	stack := []*logNode{root}
	for _, le := range log {
		cur := stack[len(stack)-1]
		switch le.Kind {
		case "push":
			n := &logNode{}
			cur.children = append(cur.children, n)
			stack = append(stack, n)
		case "pop":
			if len(stack) > 1 {
				stack = stack[:len(stack)-1]
			}
		default:
			if len(cur.children) > 0 {
				// entries after a fork at the same level: keep order by opening a pseudo child
				n := &logNode{}
				cur.children = append(cur.children, n)
				n.entries = append(n.entries, le)
				continue
			}
			cur.entries = append(cur.entries, le)
		}
	}
	var count func(n *logNode) int
	count = func(n *logNode) int {
		c := 0
		for _, le := range n.entries {
			if le.Kind == "check" {
				c++
			}
		}
		for _, ch := range n.children {
			c += count(ch)
		}
		n.checks = c
		return c
	}
	count(root)
	return root
}

// BuildScripts renders the obligations of one function as incremental scripts
// (one per chunk of the fork tree, so that chunks run in parallel).
func (e *Engine) BuildScripts(fr *FuncResult, timeoutMS int, maxChecks int) []string {
	var terms []*Term
	for _, le := range fr.Log {
		if le.T != nil {
			terms = append(terms, le.T)
		}
	}
	lemmas := e.sumLemmas(terms)
	sc := e.tb.NewScript()
	sc.Prepare(append(append([]*Term{}, terms...), lemmas...))
	header := smtPrelude + sc.Header()
	if strings.Contains(header, "(declare-fun idx ") {
		header += idxAxiom
	}
	if strings.Contains(header, "(declare-fun getbit ") {
		header += getbitAxiom
	}
	for _, l := range lemmas {
		header += "(assert " + sc.TermText(l) + ")\n"
	}
	root := buildLogTree(fr.Log)
	var scripts []string
	writeEntry := func(sb *strings.Builder, le LogEntry, assumeOnly bool) {
		switch le.Kind {
		case "assume":
			sb.WriteString("(assert " + sc.TermText(le.T) + ")\n")
		case "check":
			if assumeOnly {
				if !le.Obl.Canary {
					sb.WriteString("(assert " + sc.TermText(le.T) + ")\n")
				}
				return
			}
			fmt.Fprintf(sb, "(echo \"@obl %d\")\n", le.Obl.Seq)
			if le.Obl.Canary {
				sb.WriteString("(set-option :timeout 400)\n")
			}
			sb.WriteString("(push 1)\n(assert (not " + sc.TermText(le.T) + "))\n(check-sat)\n(pop 1)\n")
			if le.Obl.Canary {
				fmt.Fprintf(sb, "(set-option :timeout %d)\n", timeoutMS)
			}
			if !le.Obl.Canary {
				sb.WriteString("(assert " + sc.TermText(le.T) + ")\n")
			}
		}
	}
	var full func(sb *strings.Builder, n *logNode)
	full = func(sb *strings.Builder, n *logNode) {
		for _, le := range n.entries {
			writeEntry(sb, le, false)
		}
		for _, ch := range n.children {
			sb.WriteString("(push 1)\n")
			full(sb, ch)
			sb.WriteString("(pop 1)\n")
		}
	}
	var emit func(n *logNode, prefix []LogEntry)
	emit = func(n *logNode, prefix []LogEntry) {
		if n.checks == 0 {
			return
		}
		var sb strings.Builder
		sb.WriteString(header)
		for _, le := range prefix {
			writeEntry(&sb, le, true)
		}
		if n.checks <= maxChecks || len(n.children) == 0 {
			full(&sb, n)
			scripts = append(scripts, sb.String())
			return
		}
		own := 0
		for _, le := range n.entries {
			if le.Kind == "check" {
				own++
			}
		}
		if own > 0 {
			for _, le := range n.entries {
				writeEntry(&sb, le, false)
			}
			scripts = append(scripts, sb.String())
		}
		np := append(append([]LogEntry{}, prefix...), n.entries...)
		for _, ch := range n.children {
			emit(ch, np)
		}
	}
	emit(root, nil)
	return scripts
}

// HasQuantifier reports whether the term contains a quantifier.
func HasQuantifier(t *Term) bool {
	seen := map[*Term]bool{}
	var rec func(x *Term) bool
	rec = func(x *Term) bool {
		if x.Op == "forall" || x.Op == "exists" {
			return true
		}
		if seen[x] {
			return false
		}
		seen[x] = true
		for _, a := range x.Args {
			if rec(a) {
				return true
			}
		}
		return false
	}
	return rec(t)
}

// RelaxedScript is StandaloneScript with every quantified hypothesis dropped:
// a model of it is only a candidate counterexample (to be confirmed by replay on the real code).
func (e *Engine) RelaxedScript(o *Obl, vals []*Term) string {
	o2 := *o
	o2.PC = nil
	for _, t := range o.PC {
		if !HasQuantifier(t) {
			o2.PC = append(o2.PC, t)
		}
	}
	if HasQuantifier(o.Goal) {
		return ""
	}
	s := e.StandaloneScript(&o2, true, vals)
	// prefer unusual identifiers (unregistered backend ids, unknown type bytes): soft constraints on the values read
	var soft strings.Builder
	for i, ev := range o.Trace {
		if ev.Kind == "prim" && ev.Val != nil && ev.Val.Op == "const" && i >= 0 {
			fmt.Fprintf(&soft, "(assert-soft (> %s 200))\n", ev.Val.Name)
		}
	}
	return strings.Replace(s, "(check-sat)\n", soft.String()+"(check-sat)\n", 1)
}

// StandaloneScript renders one obligation as a self-contained query.
var scriptMu sync.Mutex // script construction may create terms (summation lemmas): the term bank is not thread-safe

func (e *Engine) StandaloneScript(o *Obl, withModel bool, vals []*Term) string {
	scriptMu.Lock()
	defer scriptMu.Unlock()
	terms := append([]*Term{}, o.PC...)
	terms = append(terms, o.Goal)
	terms = append(terms, vals...)
	lemmas := e.sumLemmas(terms)
	sc := e.tb.NewScript()
	sc.Prepare(append(append([]*Term{}, terms...), lemmas...))
	var sb strings.Builder
	if withModel {
		sb.WriteString("(set-option :produce-models true)\n")
	}
	sb.WriteString(smtPrelude)
	sb.WriteString(sc.Header())
	if strings.Contains(sc.Header(), "(declare-fun idx ") {
		sb.WriteString(idxAxiom)
	}
	if strings.Contains(sc.Header(), "(declare-fun getbit ") {
		sb.WriteString(getbitAxiom)
	}
	for _, l := range lemmas {
		sb.WriteString("(assert " + sc.TermText(l) + ")\n")
	}
	for _, t := range o.PC {
		sb.WriteString("(assert " + sc.TermText(t) + ")\n")
	}
	sb.WriteString("(assert (not " + sc.TermText(o.Goal) + "))\n")
	if withModel && len(vals) > 0 {
		for i, v := range vals {
			fmt.Fprintf(&sb, "(define-fun gv_%d () %s %s)\n", i, v.Sort, sc.TermText(v))
		}
	}
	sb.WriteString("(check-sat)\n")
	if withModel && len(vals) > 0 {
		sb.WriteString("(get-value (")
		for i := range vals {
			fmt.Fprintf(&sb, "gv_%d ", i)
		}
		sb.WriteString("))\n")
	}
	return sb.String()
}

type solverSpec struct {
	name string
	args func(file string, timeoutMS int) []string
}

var solvers = []solverSpec{
	{"z3-new", func(f string, t int) []string { return []string{"z3-new", fmt.Sprintf("timeout=%d", t), f} }},
	{"z3", func(f string, t int) []string { return []string{"z3", fmt.Sprintf("-t:%d", t), f} }},
	{"cvc5", func(f string, t int) []string {
		return []string{"cvc5", "--incremental", fmt.Sprintf("--tlimit-per=%d", t), f}
	}},
	// the same solver with other random seeds: quantifier instantiation order varies a lot with the seed
	{"z3-new/seed1", func(f string, t int) []string {
		return []string{"z3-new", fmt.Sprintf("timeout=%d", t), "smt.random_seed=1", "sat.random_seed=1", f}
	}},
	{"z3-new/seed7", func(f string, t int) []string {
		return []string{"z3-new", fmt.Sprintf("timeout=%d", t), "smt.random_seed=7", "sat.random_seed=7", f}
	}},
	{"z3-new/seed42", func(f string, t int) []string {
		return []string{"z3-new", fmt.Sprintf("timeout=%d", t), "smt.random_seed=42", "sat.random_seed=42", f}
	}},
	{"z3-new/seed2", func(f string, t int) []string {
		return []string{"z3-new", fmt.Sprintf("timeout=%d", t), "smt.random_seed=2", "sat.random_seed=2", f}
	}},
	{"z3-new/seed3", func(f string, t int) []string {
		return []string{"z3-new", fmt.Sprintf("timeout=%d", t), "smt.random_seed=3", "sat.random_seed=3", f}
	}},
	{"z3-new/seed11", func(f string, t int) []string {
		return []string{"z3-new", fmt.Sprintf("timeout=%d", t), "smt.random_seed=11", "sat.random_seed=11", f}
	}},
	{"z3-new/cs3", func(f string, t int) []string {
		return []string{"z3-new", fmt.Sprintf("timeout=%d", t), "auto_config=false", "smt.case_split=3", f}
	}},
}

func runSolver(s solverSpec, file string, timeoutMS int, hardLimit time.Duration) (string, float64) {
	return runSolverCtx(context.Background(), s, file, timeoutMS, hardLimit)
}

func runSolverCtx(parent context.Context, s solverSpec, file string, timeoutMS int, hardLimit time.Duration) (string, float64) {
	a := s.args(file, timeoutMS)
	ctx, cancel := context.WithTimeout(parent, hardLimit)
	defer cancel()
	cmd := exec.CommandContext(ctx, a[0], a[1:]...)
	var out bytes.Buffer
	cmd.Stdout = &out
	cmd.Stderr = &out
	t0 := time.Now()
	_ = cmd.Run()
	return out.String(), time.Since(t0).Seconds()
}

// parseIncremental maps "@obl N" echo lines to the following status line.
func parseIncremental(out string) map[int]string {
	res := map[int]string{}
	cur := -1
	for _, ln := range strings.Split(out, "\n") {
		ln = strings.TrimSpace(ln)
		ln = strings.Trim(ln, "\"")
		if strings.HasPrefix(ln, "@obl ") {
			fmt.Sscanf(ln, "@obl %d", &cur)
			continue
		}
		if cur >= 0 {
			switch {
			case ln == "unsat" || ln == "sat" || ln == "unknown" || ln == "timeout":
				res[cur] = ln
				cur = -1
			case strings.HasPrefix(ln, "(error"):
				res[cur] = "error: " + ln
				cur = -1
			}
		}
	}
	return res
}

func firstStatus(out string) string {
	for _, ln := range strings.Split(out, "\n") {
		ln = strings.TrimSpace(ln)
		switch {
		case ln == "unsat" || ln == "sat" || ln == "unknown" || ln == "timeout":
			return ln
		case strings.HasPrefix(ln, "(error"):
			return "error: " + ln
		}
	}
	return "unknown"
}

// Discharge runs the solvers over all function results.
func (e *Engine) Discharge(results []*FuncResult, so SolveOpts) {
	if so.Jobs <= 0 {
		so.Jobs = 16
	}
	if so.TimeoutMS <= 0 {
		so.TimeoutMS = 10000
	}
	os.MkdirAll(so.OutDir, 0o755)
	// phase 1: incremental scripts (chunks of each function's fork tree) on z3-new, in parallel
	var wg sync.WaitGroup
	sem := make(chan struct{}, so.Jobs)
	incT := so.TimeoutMS
	if incT > 1000 {
		incT = 1000 // failures are retried standalone, in parallel, with the full timeout
	}
	var mu sync.Mutex
	for _, fr := range results {
		if len(fr.Obls) == 0 {
			continue
		}
		for _, o := range fr.Obls {
			o.Status = "unknown"
			o.Solver = solvers[0].name
		}
		scripts := e.BuildScripts(fr, incT, 24)
		for i, script := range scripts {
			f := filepath.Join(so.OutDir, sanitize(fr.Key)+".smt2")
			if i > 0 {
				f = filepath.Join(so.OutDir, fmt.Sprintf("%s.part%d.smt2", sanitize(fr.Key), i+1))
			}
			os.WriteFile(f, []byte(script), 0o644)
			wg.Add(1)
			go func(fr *FuncResult, f string, nchecks int) {
				defer wg.Done()
				sem <- struct{}{}
				defer func() { <-sem }()
				hard := time.Duration(nchecks)*time.Duration(incT)*time.Millisecond + 30*time.Second
				out, secs := runSolver(solvers[0], f, incT, hard)
				st := parseIncremental(out)
				mu.Lock()
				defer mu.Unlock()
				per := secs / float64(len(st)+1)
				for _, o := range fr.Obls {
					if s, ok := st[o.Seq]; ok {
						o.Status = s
						o.Time = per
					}
				}
			}(fr, f, strings.Count(script, "(check-sat)"))
		}
	}
	wg.Wait()
	// thorough tier: the same incremental scripts are run on an independent solver (z3 4.8.12, a different code base generation
	// than z3 5.1); an obligation the first solver discharged and the second refutes (sat) is reported, never silently accepted.
	// Timeouts/unknowns of the second solver are not disagreements.
	if so.CrossCheck {
		var wg3 sync.WaitGroup
		for _, fr := range results {
			files, _ := filepath.Glob(filepath.Join(so.OutDir, sanitize(fr.Key)+"*.smt2"))
			for _, f := range files {
				if strings.Contains(filepath.Base(f), "obl_") {
					continue
				}
				wg3.Add(1)
				go func(fr *FuncResult, f string) {
					defer wg3.Done()
					sem <- struct{}{}
					defer func() { <-sem }()
					b, _ := os.ReadFile(f)
					n := strings.Count(string(b), "(check-sat)")
					out, _ := runSolver(solvers[1], f, 2000, time.Duration(n)*2*time.Second+30*time.Second)
					st := parseIncremental(out)
					mu.Lock()
					defer mu.Unlock()
					for _, o := range fr.Obls {
						if o.Canary {
							continue
						}
						if s2, ok := st[o.Seq]; ok {
							o.Cross = s2
							if o.Status == "unsat" && s2 == "sat" {
								o.Status = "sat"
								o.Solver = "z3 4.8.12 (cross-check disagrees with z3-new)"
							}
						}
					}
				}(fr, f)
			}
		}
		wg3.Wait()
	}
	// phase 2: everything not decided as expected is retried standalone on the portfolio
	var retry []*Obl
	for _, fr := range results {
		// canaries guard against vacuity per function and kind: one satisfiable instance is enough, so the unsat ones
		// are re-checked standalone (the incremental context contains asserted goals) only if none is satisfiable yet
		canaryOK := map[string]bool{}
		canaryRetried := map[string]int{}
		for _, o := range fr.Obls {
			if o.Canary && o.Status != "unsat" {
				canaryOK[o.Kind] = true
			}
		}
		for _, o := range fr.Obls {
			if o.Canary {
				if o.Status == "unsat" && !canaryOK[o.Kind] && canaryRetried[o.Kind] < 4 {
					canaryRetried[o.Kind]++
					retry = append(retry, o)
				}
				continue
			}
			if o.Status != "unsat" {
				retry = append(retry, o)
			}
		}
	}
	// stage A: two configurations per obligation, 8 obligations at a time (16 processes on 16 cores);
	// stage B: what is still undecided goes to the whole portfolio, 3 obligations at a time.
	runStage := func(obls []*Obl, set []solverSpec, par int, mult int) {
		sem2 := make(chan struct{}, par)
		var wg2 sync.WaitGroup
		for _, o := range obls {
			wg2.Add(1)
			go func(o *Obl) {
				defer wg2.Done()
				sem2 <- struct{}{}
				defer func() { <-sem2 }()
				script := e.StandaloneScript(o, false, nil)
				f := filepath.Join(so.OutDir, "obl_"+sanitize(o.Name)+".smt2")
				os.WriteFile(f, []byte(script), 0o644)
				type ans struct {
					status, solver string
					secs           float64
				}
				ch := make(chan ans, len(set))
				ctx, cancel := context.WithCancel(context.Background())
				for _, s := range set {
					go func(s solverSpec) {
						out, secs := runSolverCtx(ctx, s, f, so.TimeoutMS*mult, time.Duration(so.TimeoutMS*mult)*time.Millisecond+5*time.Second)
						ch <- ans{firstStatus(out), s.name, secs}
					}(s)
				}
				best := ans{status: "unknown"}
				for range set {
					a := <-ch
					if a.status == "unsat" || a.status == "sat" {
						best = a
						break
					} else if best.status == "unknown" && a.status != "unknown" && !strings.HasPrefix(a.status, "error") {
						best = a
					}
				}
				cancel()
				o.Status, o.Solver, o.Time = best.status, best.solver, best.secs
			}(o)
		}
		wg2.Wait()
	}
	twoStages := func(obls []*Obl) {
		runStage(obls, []solverSpec{solvers[0], solvers[len(solvers)-1]}, 8, 1)
		var retry2 []*Obl
		for _, o := range obls {
			if o.Status != "unsat" && o.Status != "sat" {
				retry2 = append(retry2, o)
			}
		}
		// the last resort gets three times the time: a loaded machine must not turn a slow proof into an alarm
		runStage(retry2, solvers[1:], 3, 3)
	}
	// The same obligation usually recurs on many paths (name~2, name~3, ...). When it does not hold, retrying every
	// instance on the whole portfolio costs minutes and tells nothing new: the first few instances of each base name
	// are retried; the others are retried only if those were all discharged.
	const perBase = 3
	groups := map[string][]*Obl{}
	var order []string
	var first []*Obl
	for _, o := range retry {
		if o.Canary {
			first = append(first, o)
			continue
		}
		b := o.Name
		if i := strings.LastIndex(b, "~"); i > 0 {
			b = b[:i]
		}
		if _, ok := groups[b]; !ok {
			order = append(order, b)
		}
		groups[b] = append(groups[b], o)
		if len(groups[b]) <= perBase {
			first = append(first, o)
		}
	}
	twoStages(first)
	var rest []*Obl
	for _, b := range order {
		g := groups[b]
		if len(g) <= perBase {
			continue
		}
		allOK := true
		for _, o := range g[:perBase] {
			if o.Status != "unsat" {
				allOK = false
			}
		}
		if allOK {
			rest = append(rest, g[perBase:]...)
		} else {
			for _, o := range g[perBase:] {
				o.Solver = "not retried: the same obligation already failed on " + fmt.Sprint(perBase) + " earlier paths"
			}
		}
	}
	if len(rest) > 0 {
		twoStages(rest)
	}
}

// sumLemmas returns the background facts about finite sums for the psum terms that occur in the given terms:
//   - the definition of every summand array (forall k. arr[k] = body(k)),
//   - one unfolding step of every occurring psum(arr, n): empty sum, and psum(arr, n) = psum(arr, n-1) + arr[n-1] for n > 0,
//   - congruence for every pair of occurring (or unfolded) sums: equal length and pointwise equal summands give equal sums.
// All are valid facts about the mathematical sum (the last one by induction on n, which the solver cannot do itself); they are
// listed once in the assumption ledger as the summation lemma schema.
func (e *Engine) sumLemmas(terms []*Term) []*Term {
	return append(e.sumLemmas0(terms), e.contentLemmas(terms)...)
}

// contentFns are uninterpreted functions of a byte range (row, offset, length) that stand for a value determined by the range's
// content: the integer SetBytes builds, the string a conversion builds. For every pair of occurring applications the generator
// adds the congruence fact: equal length and pointwise equal bytes give equal values.
var contentFns = map[string]bool{"bytes2big": true, "bytes2str": true, "bytestok": true}

func (e *Engine) contentLemmas(terms []*Term) []*Term {
	tb := e.tb
	seen := map[*Term]bool{}
	apps := map[string][]*Term{}
	var walk func(t *Term) bool
	walk = func(t *Term) bool { // reports whether t contains a bound variable
		if t == nil {
			return false
		}
		if t.Op == "bound" {
			return true
		}
		if seen[t] {
			return false
		}
		seen[t] = true
		hasBound := false
		for _, a := range t.Args {
			if walk(a) {
				hasBound = true
			}
		}
		if t.Op == "app" && (contentFns[t.Name] || strings.HasPrefix(t.Name, "packr_")) && len(t.Args) == 3 && len(tb.FreeBound(t)) == 0 {
			apps[t.Name] = append(apps[t.Name], t)
		}
		return hasBound
	}
	for _, t := range terms {
		walk(t)
	}
	var out []*Term
	var names []string
	for n := range apps {
		names = append(names, n)
	}
	sort.Strings(names)
	for _, n := range names {
		all := apps[n]
		if len(all) > 12 {
			all = all[:12]
		}
		for i := 0; i < len(all); i++ {
			for j := i + 1; j < len(all); j++ {
				a, b := all[i], all[j]
				k := tb.BoundVar("kc", SInt)
				same := tb.Forall([]*Term{k}, tb.Implies(tb.And(tb.Le(tb.Int(0), k), tb.Lt(k, a.Args[2])),
					tb.Eq(tb.Select(a.Args[0], tb.Add(a.Args[1], k)), tb.Select(b.Args[0], tb.Add(b.Args[1], k)))))
				out = append(out, tb.Implies(tb.And(tb.Eq(a.Args[2], b.Args[2]), same), tb.Eq(a, b)))
			}
		}
	}
	if len(out) > 0 {
		e.Assumed["content lemma schema: a value built from a byte range (SetBytes, string conversion) depends only on the range's length and bytes (congruence instantiated for every pair of occurring ranges)"] = true
	}
	return out
}

func (e *Engine) sumLemmas0(terms []*Term) []*Term {
	tb := e.tb
	if tb.SumDefs == nil {
		return nil
	}
	seen := map[*Term]bool{}
	var psums []*Term
	arrs := map[string]bool{}
	var walk func(t *Term)
	walk = func(t *Term) {
		if t == nil || seen[t] {
			return
		}
		seen[t] = true
		if t.Op == "app" && t.Name == "psum" {
			psums = append(psums, t)
		}
		if (t.Op == "const" || t.Op == "app") && strings.HasPrefix(t.Name, "sumarr!") {
			if !arrs[t.Name] {
				arrs[t.Name] = true
				if d, ok := tb.SumDefs[t.Name]; ok {
					walk(d.Body) // nested sums inside the summand
				}
			}
		}
		for _, a := range t.Args {
			walk(a)
		}
		for _, p := range t.Pats {
			for _, q := range p {
				walk(q)
			}
		}
	}
	for _, t := range terms {
		walk(t)
	}
	if len(psums) == 0 && len(arrs) == 0 {
		return nil
	}
	e.Assumed["summation lemma schema: one-step unfolding of every occurring sum and congruence of sums with pointwise equal summands (valid by induction on the length, instantiated by the generator)"] = true
	var out []*Term
	var names []string
	for n := range arrs {
		names = append(names, n)
	}
	sort.Strings(names)
	for _, n := range names {
		d := tb.SumDefs[n]
		if d == nil {
			continue
		}
		sel := tb.Select(d.Arr, d.Var)
		out = append(out, tb.Forall(append(append([]*Term{}, d.Free...), d.Var), tb.Eq(sel, d.Body), []*Term{sel}))
	}
	// close over the variables of enclosing quantifiers: a sum under a quantifier is a family of sums
	closeOver := func(fvs []*Term, fact *Term, pats ...[]*Term) *Term {
		if len(fvs) == 0 {
			return fact
		}
		return tb.Forall(fvs, fact, pats...)
	}
	// unfolding (one level); the unfolded predecessors take part in the congruence pairs
	all := append([]*Term{}, psums...)
	inAll := map[*Term]bool{}
	for _, p := range psums {
		inAll[p] = true
	}
	for _, p := range psums {
		arr, n := p.Args[0], p.Args[1]
		fv := tb.FreeBound(p)
		out = append(out, closeOver(fv, tb.Implies(tb.Le(n, tb.Int(0)), tb.Eq(p, tb.Int(0))), []*Term{p}))
		pred := tb.Psum(arr, tb.Sub(n, tb.Int(1)))
		out = append(out, closeOver(fv, tb.Implies(tb.Gt(n, tb.Int(0)), tb.Eq(p, tb.Add(pred, tb.Select(arr, tb.Sub(n, tb.Int(1)))))), []*Term{p}))
		if !inAll[pred] {
			inAll[pred] = true
			all = append(all, pred)
			out = append(out, closeOver(fv, tb.Implies(tb.Le(pred.Args[1], tb.Int(0)), tb.Eq(pred, tb.Int(0))), []*Term{pred}))
		}
	}
	if len(all) > 40 {
		all = all[:40]
	}
	for i := 0; i < len(all); i++ {
		for j := i + 1; j < len(all); j++ {
			a, b := all[i], all[j]
			fa, fb := tb.FreeBound(a), tb.FreeBound(b)
			var fvs []*Term
			var pats [][]*Term
			switch {
			case len(fa) == 0 && len(fb) == 0:
			case len(fa) == len(fb):
				// two families over the same number of quantified variables: compare them at the same point
				m := map[*Term]*Term{}
				same := true
				for x := range fa {
					if fa[x] != fb[x] {
						same = false
					}
					m[fb[x]] = fa[x]
				}
				if !same {
					b = tb.Subst(b, m)
				}
				fvs = fa
				pats = [][]*Term{{a}, {b}}
			case len(fa) == 0:
				fvs = fb
				pats = [][]*Term{{b}}
			case len(fb) == 0:
				fvs = fa
				pats = [][]*Term{{a}}
			default:
				continue
			}
			if a == b || (a.Args[0] == b.Args[0]) {
				continue // same array: equality of lengths gives equality of sums by congruence of the function itself
			}
			k := tb.BoundVar("ks", SInt)
			same := tb.Forall([]*Term{k}, tb.Implies(tb.And(tb.Le(tb.Int(0), k), tb.Lt(k, a.Args[1])), tb.Eq(tb.Select(a.Args[0], k), tb.Select(b.Args[0], k))))
			out = append(out, closeOver(fvs, tb.Implies(tb.And(tb.Eq(a.Args[1], b.Args[1]), same), tb.Eq(a, b)), pats...))
		}
	}
	return out
}
