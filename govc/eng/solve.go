package eng

import (
	"bytes"
	"context"
	"fmt"
	"os"
	"os/exec"
	"path/filepath"
	"strings"
	"sync"
	"time"
)

// SolveOpts configures discharge.
type SolveOpts struct {
	OutDir     string
	TimeoutMS  int // per check-sat
	Jobs       int
	Portfolio  bool // re-run failures standalone on all solvers
	CrossCheck bool // thorough: confirm every unsat by a second solver
}

const smtPrelude = `(set-option :print-success false)
(set-logic ALL)
`

// BuildScript renders the incremental script of one function.
func (e *Engine) BuildScript(fr *FuncResult, timeoutMS int) string {
	var terms []*Term
	for _, le := range fr.Log {
		if le.T != nil {
			terms = append(terms, le.T)
		}
	}
	sc := e.tb.NewScript()
	sc.Prepare(terms)
	var sb strings.Builder
	sb.WriteString(smtPrelude)
	sb.WriteString(sc.Header())
	for _, le := range fr.Log {
		switch le.Kind {
		case "push":
			sb.WriteString("(push 1)\n")
		case "pop":
			sb.WriteString("(pop 1)\n")
		case "assume":
			sb.WriteString("(assert " + sc.TermText(le.T) + ")\n")
		case "check":
			fmt.Fprintf(&sb, "(echo \"@obl %d\")\n", le.Obl.Seq)
			if le.Obl.Canary {
				sb.WriteString("(set-option :timeout 400)\n")
			}
			sb.WriteString("(push 1)\n(assert (not " + sc.TermText(le.T) + "))\n(check-sat)\n(pop 1)\n")
			if le.Obl.Canary {
				fmt.Fprintf(&sb, "(set-option :timeout %d)\n", timeoutMS)
			}
			if !le.Obl.Canary {
				sb.WriteString("(assert " + sc.TermText(le.T) + ")\n")
			}
		}
	}
	return sb.String()
}

// StandaloneScript renders one obligation as a self-contained query.
func (e *Engine) StandaloneScript(o *Obl, withModel bool, vals []*Term) string {
	terms := append([]*Term{}, o.PC...)
	terms = append(terms, o.Goal)
	terms = append(terms, vals...)
	sc := e.tb.NewScript()
	sc.Prepare(terms)
	var sb strings.Builder
	if withModel {
		sb.WriteString("(set-option :produce-models true)\n")
	}
	sb.WriteString(smtPrelude)
	sb.WriteString(sc.Header())
	for _, t := range o.PC {
		sb.WriteString("(assert " + sc.TermText(t) + ")\n")
	}
	sb.WriteString("(assert (not " + sc.TermText(o.Goal) + "))\n(check-sat)\n")
	if withModel && len(vals) > 0 {
		sb.WriteString("(get-value (")
		for _, v := range vals {
			sb.WriteString(sc.TermText(v) + " ")
		}
		sb.WriteString("))\n")
	}
	return sb.String()
}

type solverSpec struct {
	name string
	args func(file string, timeoutMS int) []string
}

var solvers = []solverSpec{
	{"z3-new", func(f string, t int) []string { return []string{"z3-new", fmt.Sprintf("timeout=%d", t), f} }},
	{"z3", func(f string, t int) []string { return []string{"z3", fmt.Sprintf("-t:%d", t), f} }},
	{"cvc5", func(f string, t int) []string {
		return []string{"cvc5", "--incremental", fmt.Sprintf("--tlimit-per=%d", t), f}
	}},
}

func runSolver(s solverSpec, file string, timeoutMS int, hardLimit time.Duration) (string, float64) {
	return runSolverCtx(context.Background(), s, file, timeoutMS, hardLimit)
}

func runSolverCtx(parent context.Context, s solverSpec, file string, timeoutMS int, hardLimit time.Duration) (string, float64) {
	a := s.args(file, timeoutMS)
	ctx, cancel := context.WithTimeout(parent, hardLimit)
	defer cancel()
	cmd := exec.CommandContext(ctx, a[0], a[1:]...)
	var out bytes.Buffer
	cmd.Stdout = &out
	cmd.Stderr = &out
	t0 := time.Now()
	_ = cmd.Run()
	return out.String(), time.Since(t0).Seconds()
}

// parseIncremental maps "@obl N" echo lines to the following status line.
func parseIncremental(out string) map[int]string {
	res := map[int]string{}
	cur := -1
	for _, ln := range strings.Split(out, "\n") {
		ln = strings.TrimSpace(ln)
		ln = strings.Trim(ln, "\"")
		if strings.HasPrefix(ln, "@obl ") {
			fmt.Sscanf(ln, "@obl %d", &cur)
			continue
		}
		if cur >= 0 {
			switch {
			case ln == "unsat" || ln == "sat" || ln == "unknown" || ln == "timeout":
				res[cur] = ln
				cur = -1
			case strings.HasPrefix(ln, "(error"):
				res[cur] = "error: " + ln
				cur = -1
			}
		}
	}
	return res
}

func firstStatus(out string) string {
	for _, ln := range strings.Split(out, "\n") {
		ln = strings.TrimSpace(ln)
		switch {
		case ln == "unsat" || ln == "sat" || ln == "unknown" || ln == "timeout":
			return ln
		case strings.HasPrefix(ln, "(error"):
			return "error: " + ln
		}
	}
	return "unknown"
}

// Discharge runs the solvers over all function results.
func (e *Engine) Discharge(results []*FuncResult, so SolveOpts) {
	if so.Jobs <= 0 {
		so.Jobs = 16
	}
	if so.TimeoutMS <= 0 {
		so.TimeoutMS = 10000
	}
	os.MkdirAll(so.OutDir, 0o755)
	type job struct{ fr *FuncResult }
	// phase 1: one incremental script per function on z3-new
	var wg sync.WaitGroup
	sem := make(chan struct{}, so.Jobs)
	files := map[*FuncResult]string{}
	for _, fr := range results {
		if len(fr.Obls) == 0 {
			continue
		}
		incT := so.TimeoutMS
		if incT > 3000 {
			incT = 3000 // failures are retried standalone, in parallel, with the full timeout
		}
		script := e.BuildScript(fr, incT)
		f := filepath.Join(so.OutDir, sanitize(fr.Key)+".smt2")
		os.WriteFile(f, []byte(script), 0o644)
		files[fr] = f
	}
	for _, fr := range results {
		f, ok := files[fr]
		if !ok {
			continue
		}
		wg.Add(1)
		go func(fr *FuncResult, f string) {
			defer wg.Done()
			sem <- struct{}{}
			defer func() { <-sem }()
			hard := time.Duration(len(fr.Obls))*time.Duration(so.TimeoutMS)*time.Millisecond + 30*time.Second
			if hard > 20*time.Minute {
				hard = 20 * time.Minute
			}
			incT := so.TimeoutMS
			if incT > 3000 {
				incT = 3000
			}
			out, secs := runSolver(solvers[0], f, incT, hard)
			st := parseIncremental(out)
			per := secs / float64(len(fr.Obls))
			for _, o := range fr.Obls {
				if s, ok := st[o.Seq]; ok {
					o.Status = s
				} else {
					o.Status = "unknown"
				}
				o.Solver = solvers[0].name
				o.Time = per
			}
		}(fr, f)
	}
	wg.Wait()
	// phase 2: everything not decided as expected is retried standalone on the portfolio
	var retry []*Obl
	for _, fr := range results {
		for _, o := range fr.Obls {
			if o.Canary {
				// a canary that is unsat incrementally is re-checked standalone (the incremental context contains asserted goals)
				if o.Status == "unsat" {
					retry = append(retry, o)
				}
				continue
			}
			if o.Status != "unsat" {
				retry = append(retry, o)
			}
		}
	}
	for _, o := range retry {
		wg.Add(1)
		go func(o *Obl) {
			defer wg.Done()
			sem <- struct{}{}
			defer func() { <-sem }()
			script := e.StandaloneScript(o, false, nil)
			f := filepath.Join(so.OutDir, "obl_"+sanitize(o.Name)+".smt2")
			os.WriteFile(f, []byte(script), 0o644)
			type ans struct {
				status, solver string
				secs           float64
			}
			ch := make(chan ans, len(solvers))
			ctx, cancel := context.WithCancel(context.Background())
			for _, s := range solvers {
				go func(s solverSpec) {
					out, secs := runSolverCtx(ctx, s, f, so.TimeoutMS, time.Duration(so.TimeoutMS)*time.Millisecond+5*time.Second)
					ch <- ans{firstStatus(out), s.name, secs}
				}(s)
			}
			best := ans{status: "unknown"}
			for range solvers {
				a := <-ch
				if a.status == "unsat" || a.status == "sat" {
					best = a
					if !so.CrossCheck {
						break
					}
				} else if best.status == "unknown" && a.status != "unknown" && !strings.HasPrefix(a.status, "error") {
					best = a
				}
			}
			cancel()
			o.Status, o.Solver, o.Time = best.status, best.solver, best.secs
		}(o)
	}
	wg.Wait()
}
