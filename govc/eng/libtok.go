package eng

import (
	"fmt"
	"strings"
	"go/token"
	"go/types"
	"math/big"

	"golang.org/x/tools/go/ssa"
)

// Value-token model of the primitive codec (Options.TokenModel; used by the composite round-trip lemmas of C14).
//
// perunio.Encode(w, v1, ..., vn) appends one token (kind, length, value) per primitive value to the writer's ghost output and
// calls the Encode method of every value that is an Encoder; perunio.Decode(r, p1, ..., pn) consumes one token per primitive
// target and calls the Decode method of every Decoder. A token read yields the written value iff its kind (and, for byte
// slices, its length) is the one the decoder expects; otherwise the reader is desynchronised (ghost "desync") and everything it
// yields from then on is arbitrary. This abstraction of the byte level is justified, kind by kind, by the byte-level lemmas of
// package perunio (verifRoundTrip*: decoding what was encoded yields the value and consumes exactly its bytes, limits agree):
// a byte stream that replays the writer's output is, by induction over the tokens, a token stream that replays the writer's
// tokens as long as every read uses the kind that was written. The induction itself is argued, not machine-checked, and is
// listed as an assumption of every run that uses the model.

var tokenSpecs = map[string]LibFn{}

func (e *Engine) tokKind(name string) *Term { return e.tb.Int(e.strID("tok:" + name)) }

// tokWrite appends a token to the writer's output (ghost arrays tkind/tlen/tval: writer -> index -> value, and wcount).
func (e *Engine) tokWrite(st *State, w Val, kind, ln, val *Term) {
	tb := e.tb
	key := writerKey(tb, w)
	cnt := e.ghostArr(st, "wcount", SArrI)
	n := tb.Select(cnt, key)
	for _, part := range []struct {
		name string
		v    *Term
	}{{"tkind", kind}, {"tlen", ln}, {"tval", val}} {
		arr := e.ghostArr(st, part.name, SArr2I)
		e.setGhost(st, part.name, tb.Store(arr, key, tb.Store(tb.Select(arr, key), n, part.v)))
	}
	e.setGhost(st, "wcount", tb.Store(cnt, key, tb.Add(n, tb.Int(1))))
}

func (e *Engine) wtok(st *State, w Val, part string, i *Term) *Term {
	tb := e.tb
	return tb.Select(tb.Select(e.ghostArr(st, part, SArr2I), writerKey(tb, w)), i)
}

func (e *Engine) rtok(r Val, part string, i *Term) *Term {
	return e.tb.App("rtok_"+part, SInt, readerKey(e.tb, r), i)
}

// tokRead consumes the next token of the reader. It returns the token's value and whether it can be trusted (the reader was in
// step and kind/length are the expected ones); otherwise the reader is desynchronised from now on.
func (e *Engine) tokRead(st *State, r Val, kind, ln *Term) (val *Term, ok *Term) {
	tb := e.tb
	k := readerKey(tb, r)
	cntA := e.ghostArr(st, "rcount", SArrI)
	n := tb.Select(cntA, k)
	ds := e.ghostArr(st, "desync", SArrB)
	match := tb.Eq(e.rtok(r, "kind", n), kind)
	if ln != nil {
		match = tb.And(match, tb.Eq(e.rtok(r, "len", n), ln))
	}
	ok = tb.And(tb.Not(tb.Select(ds, k)), match)
	e.setGhost(st, "desync", tb.Store(ds, k, tb.Not(ok)))
	e.setGhost(st, "rcount", tb.Store(cntA, k, tb.Add(n, tb.Int(1))))
	return e.rtok(r, "val", n), ok
}

func (e *Engine) forkOn(st *State, c *Term, thenF, elseF func(st *State)) {
	if c.IsTrue() {
		thenF(st)
		return
	}
	if c.IsFalse() {
		elseF(st)
		return
	}
	st2 := st.clone()
	e.branch(func() {
		e.assume(st2, c)
		thenF(st2)
	})
	e.branch(func() {
		e.assume(st, e.tb.Not(c))
		elseF(st)
	})
}

// variadicElems returns the elements of a variadic argument list built at the call site.
func (e *Engine) variadicElems(st *State, v Val) ([]Val, bool) {
	sx, ok := v.ann("").(*SliceX)
	if !ok {
		if len(v.T) == 4 {
			if c, isC := v.slLen().ConstInt(); isC && c == 0 {
				return nil, true
			}
		}
		return nil, false
	}
	cc := st.Cells[sx.Cell]
	if cc.Spill != nil || cc.V.Elems == nil {
		return nil, false
	}
	return cc.V.Elems[sx.Lo:sx.Hi], true
}

func (e *Engine) lookupIface(pkg, name string) *types.Interface {
	for _, p := range e.Prog.AllPackages() {
		if p.Pkg.Path() == pkg {
			if o := p.Pkg.Scope().Lookup(name); o != nil {
				if it, ok := o.Type().Underlying().(*types.Interface); ok {
					return it
				}
			}
		}
	}
	return nil
}

func (e *Engine) staticMethod(T types.Type, name string) *ssa.Function {
	ms := e.Prog.MethodSets.MethodSet(T)
	for i := 0; i < ms.Len(); i++ {
		if ms.At(i).Obj().Name() == name {
			return e.Prog.MethodValue(ms.At(i))
		}
	}
	return nil
}

var basicTokKinds = map[types.BasicKind]string{types.Bool: "bool", types.Int8: "int8", types.Uint8: "uint8", types.Int16: "int16", types.Uint16: "uint16",
	types.Int32: "int32", types.Uint32: "uint32", types.Int64: "int64", types.Uint64: "uint64"}

// exactBasic: the type is literally one of the basic types the codec's type switch lists (named types do not match them).
func exactBasic(T types.Type) (string, bool) {
	if b, ok := types.Unalias(T).(*types.Basic); ok {
		n, ok := basicTokKinds[b.Kind()]
		return n, ok
	}
	return "", false
}

func isNamedType(T types.Type, pkg, name string) bool {
	n, ok := types.Unalias(T).(*types.Named)
	return ok && n.Obj().Pkg() != nil && n.Obj().Pkg().Path() == pkg && n.Obj().Name() == name
}

func isBigIntPtr(T types.Type) bool {
	p, ok := types.Unalias(T).(*types.Pointer)
	return ok && isNamedType(p.Elem(), "math/big", "Int")
}

func byteArrayLen(T types.Type) (int64, bool) {
	a, ok := types.Unalias(T).(*types.Array)
	if !ok {
		return 0, false
	}
	b, ok := a.Elem().(*types.Basic)
	if !ok || b.Kind() != types.Uint8 || (a.Len() != 32 && a.Len() != 256) {
		return 0, false
	}
	return a.Len(), true
}

func isByteSlice(T types.Type) bool {
	s, ok := types.Unalias(T).(*types.Slice)
	if !ok {
		return false
	}
	b, ok := s.Elem().(*types.Basic)
	return ok && b.Kind() == types.Uint8
}

func isExactString(T types.Type) bool {
	b, ok := types.Unalias(T).(*types.Basic)
	return ok && b.Kind() == types.String
}

const tokAssumption = "token model of perunio.Encode/Decode: one token per primitive value, a read yields the written value iff kind and length are the expected ones (justified kind by kind by the byte-level lemmas perunio.verifRoundTrip*; the induction over the token sequence is argued, not machine-checked)"

func init() {
	ghostSorts["rcount"] = SArrI
	ghostSorts["desync"] = SArrB
	ghostSorts["wcount"] = SArrI
	ghostSorts["tkind"] = SArr2I
	ghostSorts["tlen"] = SArr2I
	ghostSorts["tval"] = SArr2I
	ghostSorts["rejected"] = SArrB
	ghostSorts["unmarshalledFrom"] = SArrI
	ghostSorts["decodedFrom"] = SArrI

	tokenSpecs["perun.network/go-perun/wire/perunio.Encode"] = func(e *Engine, st *State, fn *ssa.Function, args []Val, pos token.Pos, k Kont) {
		e.Assumed[tokAssumption] = true
		vals, ok := e.variadicElems(st, args[1])
		if !ok {
			panic(e.unsupported("perunio.Encode with a value list that is not built at the call site"))
		}
		e.oblige(st, "nil", "", pos, e.tb.Neq(args[0].ifTag(), e.tb.Int(0)), "perunio.Encode on nil writer")
		e.tokEncodeFrom(st, args[0], vals, 0, pos, k)
	}
	tokenSpecs["perun.network/go-perun/wire/perunio.Decode"] = func(e *Engine, st *State, fn *ssa.Function, args []Val, pos token.Pos, k Kont) {
		e.Assumed[tokAssumption] = true
		vals, ok := e.variadicElems(st, args[1])
		if !ok {
			panic(e.unsupported("perunio.Decode with a target list that is not built at the call site"))
		}
		e.oblige(st, "nil", "", pos, e.tb.Neq(args[0].ifTag(), e.tb.Int(0)), "perunio.Decode on nil reader")
		e.tokDecodeFrom(st, args[0], vals, 0, pos, k)
	}
	// wallet.DecodeSig(r): a wallet backend reads one signature. Interface contract (third-party backends): it consumes exactly the
	// bytes one signature was written with (one byte-slice token of whatever length the backend's signatures have) and returns them.
	tokenSpecs["perun.network/go-perun/wallet.DecodeSig"] = func(e *Engine, st *State, fn *ssa.Function, args []Val, pos token.Pos, k Kont) {
		tb := e.tb
		r := args[0]
		e.Assumed["wallet backends (token model): DecodeSig consumes exactly the bytes of one signature as it was written and returns them (interface contract of third-party backends)"] = true
		e.oblige(st, "nil", "", pos, tb.Neq(r.ifTag(), tb.Int(0)), "wallet.DecodeSig on nil reader")
		fail := tb.Fresh("tokr_fail", SBool)
		e.forkOn(st, fail, func(st *State) {
			cur := e.ghostArr(st, "rfail", SArrB)
			e.setGhost(st, "rfail", tb.Store(cur, readerKey(tb, r), tb.True()))
			k(st, Val{Elems: []Val{{T: []*Term{tb.Int(0), tb.Int(0), tb.Int(0), tb.Int(0)}}, e.tokErr(st, "sig")}})
		}, func(st *State) {
			k0 := readerKey(tb, r)
			n := tb.Select(e.ghostArr(st, "rcount", SArrI), k0)
			ln := e.rtok(r, "len", n)
			val, okT := e.tokRead(st, r, e.tokKind("bytes"), nil)
			g := tb.Fresh("siglen", SInt)
			e.assume(st, tb.And(tb.Le(tb.Int(0), g), tb.Le(g, tb.BigInt(maxExisting))))
			l := tb.Ite(okT, ln, g)
			e.assume(st, tb.And(tb.Le(tb.Int(0), l), tb.Le(l, tb.BigInt(maxExisting))))
			sl := e.allocSlice(st, types.Typ[types.Uint8], l, l)
			h := e.H(st, "E:uint8", SArr2I)
			nr := tb.Fresh("sig_row", SArrI)
			j := tb.BoundVar("j", SInt)
			in := tb.And(tb.Le(tb.Int(0), j), tb.Lt(j, l))
			e.assume(st, tb.Forall([]*Term{j}, tb.And(
				tb.Implies(tb.And(in, okT), tb.Eq(tb.Select(nr, j), tb.Select(tb.App("tokbytes", SArrI, val), j))),
				tb.Implies(in, tb.And(tb.Le(tb.Int(0), tb.Select(nr, j)), tb.Le(tb.Select(nr, j), tb.Int(255))))), []*Term{tb.Select(nr, j)}))
			e.setH(st, "E:uint8", tb.Store(h, sl.slArr(), nr))
			// a backend may refuse what it read
			rej := tb.Fresh("sig_rejected", SBool)
			e.forkOn(st, rej, func(st *State) {
				e.markRejected(st, r)
				k(st, Val{Elems: []Val{{T: []*Term{tb.Int(0), tb.Int(0), tb.Int(0), tb.Int(0)}}, e.tokErr(st, "sig")}})
			}, func(st *State) { k(st, Val{Elems: []Val{sl, nilErr(tb)}}) })
		})
	}
	// verifLink(w, r): hypothesis of a round-trip lemma - from now on the reader replays what was written to w since the
	// lemma function was entered: token i after the reader's current position is token i after the writer's entry position.
	tokenSpecs["verifLink"] = func(e *Engine, st *State, fn *ssa.Function, args []Val, pos token.Pos, k Kont) {
		tb := e.tb
		w, r := args[0], args[1]
		wk := writerKey(tb, w)
		w0 := tb.Select(tb.Const("G0!wcount", SArrI), wk)
		wn := tb.Select(e.ghostArr(st, "wcount", SArrI), wk)
		rn := tb.Select(e.ghostArr(st, "rcount", SArrI), readerKey(tb, r))
		m := tb.BoundVar("m", SInt)
		var eqs []*Term
		for _, part := range []string{"kind", "len", "val"} {
			eqs = append(eqs, tb.Eq(e.rtok(r, part, m), e.wtok(st, w, "t"+part, tb.Add(w0, tb.Sub(m, rn)))))
		}
		e.Assumed["round-trip hypothesis (verifLink): the reader replays the tokens written to the writer since the lemma function was entered"] = true
		e.assume(st, tb.Forall([]*Term{m}, tb.Implies(tb.And(tb.Le(rn, m), tb.Lt(m, tb.Add(rn, tb.Sub(wn, w0)))), tb.And(eqs...)),
			[]*Term{e.rtok(r, "val", m)}, []*Term{e.rtok(r, "kind", m)}))
		e.assume(st, tb.Not(tb.Select(e.ghostArr(st, "desync", SArrB), readerKey(tb, r))))
		k(st, Val{})
	}
}

// markRejected: a third-party unmarshaler or decoder refused the bytes it was given (ghost "rejected", per reader).
func (e *Engine) markRejected(st *State, r Val) {
	cur := e.ghostArr(st, "rejected", SArrB)
	e.setGhost(st, "rejected", e.tb.Store(cur, readerKey(e.tb, r), e.tb.True()))
}

func (e *Engine) tokErr(st *State, hint string) Val {
	return e.newError(st, hint)
}

func nilErr(tb *TB) Val { return Val{T: []*Term{tb.Int(0), tb.Int(0)}} }

// tokEncodeFrom encodes vals[i:] and continues with k(error value).
func (e *Engine) tokEncodeFrom(st *State, w Val, vals []Val, i int, pos token.Pos, k Kont) {
	tb := e.tb
	if i == len(vals) {
		k(st, nilErr(tb))
		return
	}
	next := func(st *State) { e.tokEncodeFrom(st, w, vals, i+1, pos, k) }
	// a write may fail: the encoder returns an error
	writeTok := func(st *State, kind string, ln, val *Term) {
		fail := tb.Fresh("tokw_fail", SBool)
		e.forkOn(st, fail, func(st *State) { k(st, e.tokErr(st, "enc")) }, func(st *State) {
			e.tokWrite(st, w, e.tokKind(kind), ln, val)
			next(st)
		})
	}
	el := vals[i]
	ix, concrete := el.ann("").(*IfaceX)
	marsh := e.lookupIface("encoding", "BinaryMarshaler")
	encI := e.lookupIface("perun.network/go-perun/wire/perunio", "Encoder")
	if !concrete {
		// unknown dynamic type below a static interface type
		bx, isB := el.ann("").(*IfaceBoundX)
		if !isB {
			panic(e.unsupported("perunio.Encode of a value of unknown dynamic type"))
		}
		e.oblige(st, "nil", "", pos, tb.Neq(el.ifTag(), tb.Int(0)), "perunio.Encode of a nil interface value")
		switch {
		case marsh != nil && types.Implements(bx.Static, marsh):
			e.Assumed["MarshalBinary of types with unknown dynamic type: does not panic, returns a byte slice or an error"] = true
			ln := tb.App("marshallen", SInt, el.ifTag(), el.ifVal())
			e.assume(st, tb.Le(tb.Int(0), ln))
			failM := tb.Fresh("marshal_fail", SBool)
			e.forkOn(st, failM, func(st *State) { k(st, e.tokErr(st, "marshal")) }, func(st *State) {
				e.oblige(st, "panic", "marshal", pos, tb.Le(ln, tb.Int(65535)), "perunio.Encode: marshalled data longer than 65535 bytes (encoder panics)")
				writeTok(st, "marshal", ln, tb.App("marshalval", SInt, el.ifTag(), el.ifVal()))
			})
		case encI != nil && types.Implements(bx.Static, encI):
			e.Assumed["Encode of values with unknown dynamic type: does not panic"] = true
			writeTok(st, "encoder", tb.Int(0), tb.App("encval", SInt, el.ifTag(), el.ifVal()))
		default:
			// the codec asserts the value to be an Encoder at run time and panics otherwise (isEncoder(x) in specs)
			e.Assumed["Encode of values with unknown dynamic type: does not panic"] = true
			e.oblige(st, "panic", "type", pos, tb.App("implements_wire_perunio.Encoder", SBool, el.ifTag()), "perunio.Encode: the value's dynamic type is not an Encoder (encoder panics): "+bx.Static.String())
			writeTok(st, "encoder", tb.Int(0), tb.App("encval", SInt, el.ifTag(), el.ifVal()))
		}
		return
	}
	T := ix.Dyn
	v := e.unbox(st, el, T)
	if name, ok := exactBasic(T); ok {
		t := v.T[0]
		if t.Sort == SBool {
			t = tb.Ite(t, tb.Int(1), tb.Int(0))
		}
		writeTok(st, name, tb.Int(0), t)
		return
	}
	if isNamedType(T, "time", "Time") {
		writeTok(st, "time", tb.Int(0), e.unixNano(st, v, T))
		return
	}
	if isBigIntPtr(T) {
		e.oblige(st, "panic", "bigint", pos, tb.Neq(v.T[0], tb.Int(0)), "perunio.Encode: nil *big.Int (encoder panics)")
		x := tb.Select(e.H(st, "BigVal", SArrI), v.T[0])
		e.oblige(st, "panic", "bigint", pos, tb.Ge(x, tb.Int(0)), "perunio.Encode: negative *big.Int (encoder panics)")
		ln := tb.App("bigbytelen", SInt, x)
		e.assume(st, tb.Ge(ln, tb.Int(0)))
		e.forkOn(st, tb.Gt(ln, tb.Int(128)), func(st *State) { k(st, e.tokErr(st, "bigint")) }, func(st *State) {
			writeTok(st, "bigint", tb.Int(0), x)
		})
		return
	}
	if n, ok := byteArrayLen(T); ok {
		if len(v.T) != 1 {
			panic(e.unsupported("perunio.Encode of a byte array that is not kept as a token"))
		}
		writeTok(st, fmt.Sprintf("arr%d", n), tb.Int(0), v.T[0])
		return
	}
	if isByteSlice(T) {
		b := e.materialiseIfSlice(st, v, T)
		row := tb.Select(e.H(st, "E:uint8", SArr2I), b.slArr())
		tok := tb.App("bytestok", SInt, row, b.slOff(), b.slLen())
		// the token determines the bytes
		j := tb.BoundVar("j", SInt)
		sel := tb.Select(tb.App("tokbytes", SArrI, tok), j)
		e.assume(st, tb.Forall([]*Term{j}, tb.Implies(tb.And(tb.Le(tb.Int(0), j), tb.Lt(j, b.slLen())), tb.Eq(sel, tb.Select(row, tb.Add(b.slOff(), j)))), []*Term{sel}))
		writeTok(st, "bytes", b.slLen(), tok)
		return
	}
	if isExactString(T) {
		ln := e.strLen(st, v.T[0])
		e.forkOn(st, tb.Gt(ln, tb.Int(65535)), func(st *State) { k(st, e.tokErr(st, "string")) }, func(st *State) {
			writeTok(st, "string", tb.Int(0), v.T[0])
		})
		return
	}
	if marsh != nil && types.Implements(T, marsh) {
		// a marshaler of the repository: treated like a third-party one (its MarshalBinary/UnmarshalBinary pair is not examined)
		e.Assumed["token model: MarshalBinary/UnmarshalBinary pairs of repository types are treated like third-party ones (one token holding what the marshaler produced)"] = true
		ln := tb.App("marshallen", SInt, el.ifTag(), el.ifVal())
		e.assume(st, tb.Le(tb.Int(0), ln))
		failM := tb.Fresh("marshal_fail", SBool)
		e.forkOn(st, failM, func(st *State) { k(st, e.tokErr(st, "marshal")) }, func(st *State) {
			e.oblige(st, "panic", "marshal", pos, tb.Le(ln, tb.Int(65535)), "perunio.Encode: marshalled data longer than 65535 bytes (encoder panics)")
			writeTok(st, "marshal", ln, tb.App("marshalval", SInt, el.ifTag(), el.ifVal()))
		})
		return
	}
	if encI != nil && types.Implements(T, encI) {
		fn := e.staticMethod(T, "Encode")
		if fn == nil {
			panic(e.unsupported("perunio.Encode: no Encode method for " + T.String()))
		}
		e.callStatic(st, fn, []Val{v, w}, nil, pos, func(st *State, res Val) {
			e.forkOn(st, tb.Neq(res.ifTag(), tb.Int(0)), func(st *State) { k(st, e.tokErr(st, "nested")) }, next)
		})
		return
	}
	e.oblige(st, "panic", "type", pos, tb.False(), "perunio.Encode: invalid type "+T.String())
	panic(pathAbort{})
}

// tokDecodeFrom decodes into vals[i:] and continues with k(error value).
func (e *Engine) tokDecodeFrom(st *State, r Val, vals []Val, i int, pos token.Pos, k Kont) {
	tb := e.tb
	if i == len(vals) {
		k(st, nilErr(tb))
		return
	}
	next := func(st *State) { e.tokDecodeFrom(st, r, vals, i+1, pos, k) }
	// readTok: the reader may fail (ghost rfail), otherwise one token is consumed
	readTok := func(st *State, kind string, ln *Term, use func(st *State, val, ok *Term)) {
		fail := tb.Fresh("tokr_fail", SBool)
		e.forkOn(st, fail, func(st *State) {
			cur := e.ghostArr(st, "rfail", SArrB)
			e.setGhost(st, "rfail", tb.Store(cur, readerKey(tb, r), tb.True()))
			k(st, e.tokErr(st, "dec"))
		}, func(st *State) {
			val, ok := e.tokRead(st, r, e.tokKind(kind), ln)
			use(st, val, ok)
		})
	}
	el := vals[i]
	ix, concrete := el.ann("").(*IfaceX)
	unm := e.lookupIface("encoding", "BinaryUnmarshaler")
	decI := e.lookupIface("perun.network/go-perun/wire/perunio", "Decoder")
	if !concrete {
		bx, isB := el.ann("").(*IfaceBoundX)
		if !isB {
			panic(e.unsupported("perunio.Decode into a value of unknown dynamic type"))
		}
		e.oblige(st, "nil", "", pos, tb.Neq(el.ifTag(), tb.Int(0)), "perunio.Decode into a nil interface value")
		switch {
		case unm != nil && types.Implements(bx.Static, unm):
			e.Assumed["UnmarshalBinary of types with unknown dynamic type (third-party assets, addresses, app ids, data): does not panic, touches only its receiver"] = true
			readTok(st, "marshal", nil, func(st *State, val, ok *Term) {
				// the unmarshaler gets the token's bytes (ghost: unmarshalledFrom); it may reject them
				key := el.ifVal()
				cur := e.ghostArr(st, "unmarshalledFrom", SArrI)
				e.setGhost(st, "unmarshalledFrom", tb.Store(cur, key, tb.Ite(ok, val, tb.Fresh("garbage", SInt))))
				um := e.ghostArr(st, "unmarshalled", SArrB)
				e.setGhost(st, "unmarshalled", tb.Store(um, key, tb.True()))
				rej := tb.Fresh("unmarshal_rejects", SBool)
				e.forkOn(st, rej, func(st *State) { e.markRejected(st, r); k(st, e.tokErr(st, "unm")) }, next)
			})
		case decI != nil && types.Implements(bx.Static, decI):
			e.Assumed["Decode of values with unknown dynamic type (third-party wire addresses etc.): does not panic, touches only its receiver"] = true
			readTok(st, "encoder", nil, func(st *State, val, ok *Term) {
				key := el.ifVal()
				cur := e.ghostArr(st, "decodedFrom", SArrI)
				e.setGhost(st, "decodedFrom", tb.Store(cur, key, tb.Ite(ok, val, tb.Fresh("garbage", SInt))))
				rej := tb.Fresh("decoder_rejects", SBool)
				e.forkOn(st, rej, func(st *State) { e.markRejected(st, r); k(st, e.tokErr(st, "dec")) }, next)
			})
		default:
			panic(e.unsupported("perunio.Decode into an interface value that is neither a BinaryUnmarshaler nor a Decoder: " + bx.Static.String()))
		}
		return
	}
	T := ix.Dyn
	v := e.unbox(st, el, T)
	pt, isPtr := types.Unalias(T).(*types.Pointer)
	if isPtr {
		ET := pt.Elem()
		storeVal := func(st *State, nv Val) {
			e.nilCheck(st, v, pos, "perunio.Decode into nil pointer")
			e.store(st, v, ET, nv)
		}
		if name, ok := exactBasic(ET); ok {
			readTok(st, name, nil, func(st *State, val, okT *Term) {
				fresh := e.freshVal(st, ET, "garbage")
				var nv *Term
				if fresh.T[0].Sort == SBool {
					nv = tb.Ite(okT, tb.Neq(val, tb.Int(0)), fresh.T[0])
				} else {
					nv = tb.Ite(okT, val, fresh.T[0])
					// a token of this kind holds a value of this type (the encoder wrote one): it is within the type's range
					e.wfVal(st, ET, scalar(nv))
				}
				storeVal(st, scalar(nv))
				next(st)
			})
			return
		}
		if isNamedType(ET, "time", "Time") {
			readTok(st, "time", nil, func(st *State, val, okT *Term) {
				nt := e.freshVal(st, ET, "time")
				e.assume(st, tb.Implies(okT, tb.Eq(e.unixNano(st, nt, ET), val)))
				storeVal(st, nt)
				next(st)
			})
			return
		}
		if isBigIntPtr(ET) {
			readTok(st, "bigint", nil, func(st *State, val, okT *Term) {
				g := tb.Fresh("garbage", SInt)
				e.assume(st, tb.Ge(g, tb.Int(0)))
				x := tb.Ite(okT, val, g)
				ln := tb.App("bigbytelen", SInt, x)
				// the decoder rejects encodings longer than MaxBigIntLength
				e.forkOn(st, tb.Gt(ln, tb.Int(128)), func(st *State) { k(st, e.tokErr(st, "bigint")) }, func(st *State) {
					ref := e.newRef(st)
					e.setH(st, "BigVal", tb.Store(e.H(st, "BigVal", SArrI), ref, x))
					e.setGhost(st, "setbyteslen", ln)
					storeVal(st, scalar(ref))
					next(st)
				})
			})
			return
		}
		if n, ok := byteArrayLen(ET); ok {
			readTok(st, fmt.Sprintf("arr%d", n), nil, func(st *State, val, okT *Term) {
				storeVal(st, scalar(tb.Ite(okT, val, tb.Fresh("garbage", SInt))))
				next(st)
			})
			return
		}
		if isByteSlice(ET) {
			e.nilCheck(st, v, pos, "perunio.Decode into nil pointer")
			d := e.load(st, v, ET)
			d = e.materialiseIfSlice(st, d, ET)
			readTok(st, "bytes", d.slLen(), func(st *State, val, okT *Term) {
				h := e.H(st, "E:uint8", SArr2I)
				old := tb.Select(h, d.slArr())
				nr := tb.Fresh("tok_row", SArrI)
				j := tb.BoundVar("j", SInt)
				in := tb.And(tb.Le(d.slOff(), j), tb.Lt(j, tb.Add(d.slOff(), d.slLen())))
				src := tb.Select(tb.App("tokbytes", SArrI, val), tb.Sub(j, d.slOff()))
				e.assume(st, tb.Forall([]*Term{j}, tb.And(
					tb.Implies(tb.And(in, okT), tb.Eq(tb.Select(nr, j), src)),
					tb.Implies(in, tb.And(tb.Le(tb.Int(0), tb.Select(nr, j)), tb.Le(tb.Select(nr, j), tb.Int(255)))),
					tb.Implies(tb.Not(in), tb.Eq(tb.Select(nr, j), tb.Select(old, j)))), []*Term{tb.Select(nr, j)}))
				e.setH(st, "E:uint8", tb.Store(h, d.slArr(), nr))
				e.viewWriteBack(st, d)
				next(st)
			})
			return
		}
		if isExactString(ET) {
			readTok(st, "string", nil, func(st *State, val, okT *Term) {
				g := tb.Fresh("garbage_str", SInt)
				e.assume(st, tb.Ge(g, tb.Int(0)))
				storeVal(st, scalar(tb.Ite(okT, val, g)))
				next(st)
			})
			return
		}
	}
	if unm != nil && types.Implements(T, unm) {
		e.Assumed["token model: MarshalBinary/UnmarshalBinary pairs of repository types are treated like third-party ones (one token holding what the marshaler produced)"] = true
		readTok(st, "marshal", nil, func(st *State, val, ok *Term) {
			key := el.ifVal()
			cur := e.ghostArr(st, "unmarshalledFrom", SArrI)
			e.setGhost(st, "unmarshalledFrom", tb.Store(cur, key, tb.Ite(ok, val, tb.Fresh("garbage", SInt))))
			um := e.ghostArr(st, "unmarshalled", SArrB)
			e.setGhost(st, "unmarshalled", tb.Store(um, key, tb.True()))
			rej := tb.Fresh("unmarshal_rejects", SBool)
			e.forkOn(st, rej, func(st *State) { e.markRejected(st, r); k(st, e.tokErr(st, "unm")) }, next)
		})
		return
	}
	if decI != nil && types.Implements(T, decI) {
		fn := e.staticMethod(T, "Decode")
		if fn == nil {
			panic(e.unsupported("perunio.Decode: no Decode method for " + T.String()))
		}
		e.callStatic(st, fn, []Val{v, r}, nil, pos, func(st *State, res Val) {
			e.forkOn(st, tb.Neq(res.ifTag(), tb.Int(0)), func(st *State) { k(st, e.tokErr(st, "nested")) }, next)
		})
		return
	}
	e.oblige(st, "panic", "type", pos, tb.False(), "perunio.Decode: invalid type "+T.String())
	panic(pathAbort{})
}


// codecOf returns the codec declaration of the receiver type of an Encode/Decode method (nil if none) and the named type.
func (e *Engine) codecOf(fn *ssa.Function) (*CodecDecl, types.Type) {
	if e.Specs.Codecs == nil {
		return nil, nil
	}
	t := fn.Signature.Recv().Type()
	if p, ok := t.(*types.Pointer); ok {
		t = p.Elem()
	}
	n, ok := types.Unalias(t).(*types.Named)
	if !ok || n.Obj().Pkg() == nil {
		return nil, nil
	}
	return e.Specs.Codecs[n.Obj().Pkg().Path()+"::"+n.Obj().Name()], n
}

// evalPred evaluates a named predicate on the given arguments in the current state.
func (e *Engine) evalPred(st *State, name string, args []specBind) (t *Term) {
	pd, ok := e.Specs.Preds[name]
	if !ok || len(pd.Params) != len(args) {
		panic(e.unsupported("codec predicate " + name + " is not defined with the right number of parameters"))
	}
	defer func() {
		if r := recover(); r != nil {
			if se, ok := r.(specErr); ok {
				panic(e.unsupported(fmt.Sprintf("spec error in codec predicate %s: %s", name, se.msg)))
			}
			panic(r)
		}
	}()
	env := map[string]specBind{}
	for i, p := range pd.Params {
		env[p.Name] = args[i]
	}
	sc := &specCtx{e: e, st: st, heap: st.Heap, oldHeap: e.entryHeap, oldAlloc: e.entryAlloc, env: env, pkg: e.Pkgs[pd.Pkg].Types}
	return sc.evalBool(pd.Body)
}

// codecEncRecv: the receiver type of the type's Encode method (T or *T).
func (e *Engine) codecEncRecv(T types.Type) types.Type {
	if fn := e.staticMethod(T, "Encode"); fn != nil {
		return fn.Signature.Recv().Type()
	}
	if fn := e.staticMethod(types.NewPointer(T), "Encode"); fn != nil {
		return fn.Signature.Recv().Type()
	}
	return T
}

const sumAssumption = "summary tokens: inside the lemma function of another type a nested value whose type has a proved round-trip lemma (codec declaration) is one token; decoding it yields a value related to the encoded one by the lemma's equality predicate and consumes that one token (justified by the nested type's lemma; composition argued as for primitive tokens)"

// checkCodec: a codec declaration must be backed by its lemma function: the function exists, is verified with the token model,
// requires the declared well-formedness predicate, ensures the declared equality predicate and exact consumption and, unless the
// declaration says "mayreject", that decoding fails only if the reader fails or a third party refuses.
func (e *Engine) checkCodec(cd *CodecDecl) {
	if e.codecChecked == nil {
		e.codecChecked = map[*CodecDecl]bool{}
	}
	if e.codecChecked[cd] {
		return
	}
	e.codecChecked[cd] = true
	e.UsedLemmas = append(e.UsedLemmas, cd.Pkg+"::"+cd.By)
	ct := e.Specs.Contracts[cd.Pkg+"::"+cd.By]
	bad := func(why string) {
		panic(e.unsupported("codec " + cd.Type + ": " + why + " (lemma function " + cd.By + ")"))
	}
	if ct == nil || !ct.TokenModel {
		bad("the lemma function has no token-model contract")
	}
	has := func(cls []Clause, sub string) bool {
		for _, c := range cls {
			if strings.Contains(c.Src, sub) {
				return true
			}
		}
		return false
	}
	if !has(ct.Requires, cd.WF+"(") {
		bad("the lemma does not require " + cd.WF)
	}
	if !has(ct.Ensures, cd.Eq+"(") {
		bad("the lemma does not ensure " + cd.Eq)
	}
	if !has(ct.Ensures, "rcount(r0) - old(rcount(r0)) == wcount(w0) - old(wcount(w0))") {
		bad("the lemma does not ensure exact consumption")
	}
	// the lemma's "fails only if" clause names rejection by a third party: the summary's decoder may then refuse, too
	cd.Rejects = has(ct.Ensures, "!rejected(")
	if !cd.MayReject && !has(ct.Ensures, "==> decErr == nil") {
		bad("the lemma has no 'decoding fails only if' clause and the declaration does not say mayreject")
	}
	e.Assumed["codec "+cd.Type+": nested values are summary tokens by lemma "+cd.Pkg+"::"+cd.By+" (the lemma is one of the functions of the C14 check)"] = true
}

// sumInjective: the summary determines the value's leaves (sumval is injective): for all leaves, unsum_i(sumval(l1..ln)) == li.
func (e *Engine) sumInjective(st *State, RT types.Type) {
	tb := e.tb
	n := len(Leaves(RT))
	var bvs []*Term
	for i := 0; i < n; i++ {
		bvs = append(bvs, tb.BoundVar(fmt.Sprintf("l%d", i), SInt))
	}
	gen := tb.App("sumval_"+typeKey(RT), SInt, bvs...)
	var eqs []*Term
	for i := 0; i < n; i++ {
		eqs = append(eqs, tb.Eq(tb.App(fmt.Sprintf("unsum_%s_%d", typeKey(RT), i), SInt, gen), bvs[i]))
	}
	e.assume(st, tb.Forall(bvs, tb.And(eqs...), []*Term{gen}))
}

// tokSummaryEncode: Encode of a nested value with a codec declaration.
func (e *Engine) tokSummaryEncode(st *State, cd *CodecDecl, T types.Type, fn *ssa.Function, args []Val, pos token.Pos, k Kont) {
	tb := e.tb
	e.Assumed[sumAssumption] = true
	e.checkCodec(cd)
	RT := fn.Signature.Recv().Type()
	v, w := args[0], args[1]
	if obj, ok := fn.Object().(*types.Func); ok && fn.Synthetic != "" {
		// pointer wrapper of a method declared on the value type: the value is what gets encoded
		if sig, ok := obj.Type().(*types.Signature); ok && sig.Recv() != nil {
			_, wrapPtr := RT.(*types.Pointer)
			_, declPtr := sig.Recv().Type().(*types.Pointer)
			if wrapPtr && !declPtr {
				e.nilCheck(st, v, pos, "Encode on nil "+RT.String())
				v = e.load(st, v, sig.Recv().Type())
				RT = sig.Recv().Type()
			}
		}
	}
	if _, isPtr := RT.(*types.Pointer); isPtr {
		e.nilCheck(st, v, pos, "Encode on nil "+RT.String())
		v = e.plainPtr(st, v)
	}
	e.oblige(st, "pre", "codec "+cd.Type, pos, e.evalPred(st, cd.WF, []specBind{{v, RT}}), "hypothesis of the round-trip lemma "+cd.By+": "+cd.WF)
	fv := e.flatten(st, RT, v)
	leaves := intTerms(tb, fv.T)
	val := tb.App("sumval_"+typeKey(RT), SInt, leaves...)
	e.sumInjective(st, RT)
	fail := tb.Fresh("tokw_fail", SBool)
	e.forkOn(st, fail, func(st *State) { k(st, e.tokErr(st, "enc")) }, func(st *State) {
		e.tokWrite(st, w, e.tokKind("sum:"+typeKey(RT)), tb.Int(0), val)
		k(st, nilErr(tb))
	})
}

// tokSummaryDecode: Decode into a nested value with a codec declaration.
func (e *Engine) tokSummaryDecode(st *State, cd *CodecDecl, T types.Type, fn *ssa.Function, args []Val, pos token.Pos, k Kont) {
	tb := e.tb
	e.Assumed[sumAssumption] = true
	e.checkCodec(cd)
	p, r := args[0], args[1]
	e.nilCheck(st, p, pos, "Decode into nil "+T.String())
	RT := e.codecEncRecv(T)
	_, encPtr := RT.(*types.Pointer)
	fail := tb.Fresh("tokr_fail", SBool)
	e.forkOn(st, fail, func(st *State) {
		cur := e.ghostArr(st, "rfail", SArrB)
		e.setGhost(st, "rfail", tb.Store(cur, readerKey(tb, r), tb.True()))
		// a failed decode may leave anything in the target
		e.store(st, p, T, e.freshVal(st, T, "partial"))
		k(st, e.tokErr(st, "dec"))
	}, func(st *State) {
		val, okT := e.tokRead(st, r, e.tokKind("sum:"+typeKey(RT)), nil)
		e.sumInjective(st, RT)
		y := e.freshVal(st, T, "decoded")
		e.store(st, p, T, y)
		e.forkOn(st, okT, func(st *State) {
			// source value reconstructed from the token
			ls := Leaves(RT)
			src := Val{T: make([]*Term, len(ls))}
			for i, l := range ls {
				t := tb.App(fmt.Sprintf("unsum_%s_%d", typeKey(RT), i), SInt, val)
				if l.Sort == SBool {
					t = tb.Neq(t, tb.Int(0))
				}
				src.T[i] = t
			}
			var eq *Term
			if encPtr {
				eq = e.evalPred(st, cd.Eq, []specBind{{e.plainPtr(st, p), RT}, {src, RT}})
			} else {
				eq = e.evalPred(st, cd.Eq, []specBind{{e.load(st, p, T), T}, {src, RT}})
			}
			e.assume(st, eq)
			if cd.MayReject || cd.Rejects {
				// the nested decoder may refuse: a third party rejects its bytes, or reasons outside its lemma (app resolver, validating constructor)
				rej := tb.Fresh("nested_rejects", SBool)
				e.forkOn(st, rej, func(st *State) { e.markRejected(st, r); k(st, e.tokErr(st, "dec")) }, func(st *State) { k(st, nilErr(tb)) })
				return
			}
			k(st, nilErr(tb))
		}, func(st *State) {
			rej := tb.Fresh("garbage_rejected", SBool)
			e.forkOn(st, rej, func(st *State) { k(st, e.tokErr(st, "dec")) }, func(st *State) { k(st, nilErr(tb)) })
		})
	})
}

// tokSummaryEncodeVal: the encoder function of a codecfn declaration applied to value v of type VT.
func (e *Engine) tokSummaryEncodeVal(st *State, cd *CodecDecl, VT types.Type, v Val, w Val, pos token.Pos, k Kont) {
	tb := e.tb
	e.Assumed[sumAssumption] = true
	e.checkCodec(cd)
	if sl, ok := VT.Underlying().(*types.Slice); ok {
		v = e.materialiseIfSlice(st, v, sl)
	}
	e.oblige(st, "pre", "codec "+cd.Type, pos, e.evalPred(st, cd.WF, []specBind{{v, VT}}), "hypothesis of the round-trip lemma "+cd.By+": "+cd.WF)
	fv := e.flatten(st, VT, v)
	leaves := intTerms(tb, fv.T)
	val := tb.App("sumval_"+cd.Enc+"_"+typeKey(VT), SInt, leaves...)
	e.sumInjectiveNamed(st, cd.Enc+"_"+typeKey(VT), len(leaves))
	ln := tb.Int(0)
	if _, ok := VT.Underlying().(*types.Slice); ok {
		ln = v.slLen()
	}
	fail := tb.Fresh("tokw_fail", SBool)
	e.forkOn(st, fail, func(st *State) { k(st, e.tokErr(st, "enc")) }, func(st *State) {
		e.tokWrite(st, w, e.tokKind("sumfn:"+cd.Enc), ln, val)
		k(st, nilErr(tb))
	})
}

// tokSummaryDecodeInto: the decoder function of a codecfn declaration; p points to a slice whose elements the decoder fills
// (the slice header is kept: the token must have been written for a slice of the same length).
func (e *Engine) tokSummaryDecodeInto(st *State, cd *CodecDecl, PT types.Type, p Val, r Val, pos token.Pos, k Kont) {
	tb := e.tb
	e.Assumed[sumAssumption] = true
	e.checkCodec(cd)
	pt, ok := PT.Underlying().(*types.Pointer)
	if !ok {
		panic(e.unsupported("codecfn decoder with a non-pointer target"))
	}
	VT := pt.Elem()
	sl, isSl := VT.Underlying().(*types.Slice)
	if !isSl {
		panic(e.unsupported("codecfn decoder with a non-slice target"))
	}
	e.nilCheck(st, p, pos, cd.Dec+" into nil pointer")
	d := e.materialiseIfSlice(st, e.load(st, p, VT), sl)
	// whatever happens, the elements of the target may have been written
	havocElems := func(st *State) {
		for _, l := range Leaves(sl.Elem()) {
			cl := e.elemClass(sl.Elem(), "", l)
			h := e.H(st, cl, ArrOf(ArrOf(l.Sort)))
			old := tb.Select(h, d.slArr())
			nr := tb.Fresh("decoded_row", ArrOf(l.Sort))
			j := tb.BoundVar("j", SInt)
			e.assume(st, tb.Forall([]*Term{j}, tb.Implies(tb.Or(tb.Lt(j, d.slOff()), tb.Ge(j, tb.Add(d.slOff(), d.slLen()))), tb.Eq(tb.Select(nr, j), tb.Select(old, j))), []*Term{tb.Select(nr, j)}))
			e.setH(st, cl, tb.Store(h, d.slArr(), nr))
		}
		e.wfVal(st, VT, e.load(st, p, VT))
	}
	fail := tb.Fresh("tokr_fail", SBool)
	e.forkOn(st, fail, func(st *State) {
		cur := e.ghostArr(st, "rfail", SArrB)
		e.setGhost(st, "rfail", tb.Store(cur, readerKey(tb, r), tb.True()))
		havocElems(st)
		k(st, e.tokErr(st, "dec"))
	}, func(st *State) {
		val, okT := e.tokRead(st, r, e.tokKind("sumfn:"+cd.Enc), d.slLen())
		name := cd.Enc + "_" + typeKey(VT)
		ls := Leaves(VT)
		e.sumInjectiveNamed(st, name, len(ls))
		havocElems(st)
		e.forkOn(st, okT, func(st *State) {
			src := Val{T: make([]*Term, len(ls))}
			for i, l := range ls {
				t := tb.App(fmt.Sprintf("unsum_%s_%d", name, i), SInt, val)
				if l.Sort == SBool {
					t = tb.Neq(t, tb.Int(0))
				}
				src.T[i] = t
			}
			e.assume(st, e.evalPred(st, cd.Eq, []specBind{{e.load(st, p, VT), VT}, {src, VT}}))
			rej := tb.Fresh("nested_rejects", SBool)
			if !cd.MayReject && !cd.Rejects {
				rej = tb.False()
			}
			e.forkOn(st, rej, func(st *State) { e.markRejected(st, r); k(st, e.tokErr(st, "dec")) }, func(st *State) { k(st, nilErr(tb)) })
		}, func(st *State) {
			rej := tb.Fresh("garbage_rejected", SBool)
			e.forkOn(st, rej, func(st *State) { k(st, e.tokErr(st, "dec")) }, func(st *State) { k(st, nilErr(tb)) })
		})
	})
}

func (e *Engine) sumInjectiveNamed(st *State, name string, n int) {
	tb := e.tb
	var bvs []*Term
	for i := 0; i < n; i++ {
		bvs = append(bvs, tb.BoundVar(fmt.Sprintf("l%d", i), SInt))
	}
	gen := tb.App("sumval_"+name, SInt, bvs...)
	var eqs []*Term
	for i := 0; i < n; i++ {
		eqs = append(eqs, tb.Eq(tb.App(fmt.Sprintf("unsum_%s_%d", name, i), SInt, gen), bvs[i]))
	}
	e.assume(st, tb.Forall(bvs, tb.And(eqs...), []*Term{gen}))
}

var _ = big.NewInt
