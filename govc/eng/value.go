package eng

import (
	"fmt"
	"go/types"
	"strings"

	"golang.org/x/tools/go/ssa"
)

// Val is a symbolic Go value: the leaf terms of its flattened type plus Go-side
// annotations for things that have no first-order representation (interior
// pointers, closures, concrete dynamic types, local arrays).
type Val struct {
	T     []*Term
	Ann   map[string]Ann // keyed by leaf-path prefix of the annotated sub-value ("" = whole value)
	Elems []Val          // local array value (array types only), nil otherwise
}

// Ann is a Go-side annotation.
type Ann interface{}

// PtrX annotates a pointer that is not a plain reference to a heap object.
type PtrX struct {
	Kind  PtrKind
	Cell  int         // PLocal: cell id
	Elem  int         // PLocal into a local array: element index, else -1
	Ref   *Term       // PField: object reference; PElem: backing array
	Idx   *Term       // PElem: absolute index in the backing array
	Root  types.Type  // PField: type of the heap object; PElem: element type; PGlobal: global's type
	Glob  *ssa.Global // PGlobal
	Path  string      // leaf-path prefix inside the root
	PType types.Type  // type of the pointee
}

type PtrKind int

const (
	PLocal PtrKind = iota
	PField
	PElem
	PGlobal
)

// IfaceX records the concrete dynamic type of an interface value and, for
// non-scalar payloads, the boxed value.
type IfaceX struct {
	Dyn types.Type
	Box *Val
}

// IfaceBoundX records that an interface value of unknown dynamic type was
// converted from a value of the interface type Static (so its dynamic type
// implements Static).
type IfaceBoundX struct {
	Static types.Type
}

// FuncX is a statically known function value (closure).
type FuncX struct {
	Fn       *ssa.Function
	Bindings []Val
	Recv     *Val // bound method receiver
}

// SliceX marks a slice over a local array cell.
type SliceX struct {
	Cell   int
	Lo, Hi int
	ElemT  types.Type
}

// IterX is a map iterator.
type IterX struct {
	ID    int // key into State.iters
	KeyT  types.Type
	ValT  types.Type
	IsStr bool
}

func (v Val) ann(path string) Ann {
	if v.Ann == nil {
		return nil
	}
	return v.Ann[path]
}

func (v Val) withAnn(path string, a Ann) Val {
	n := Val{T: v.T, Elems: v.Elems, Ann: map[string]Ann{}}
	for k, x := range v.Ann {
		n.Ann[k] = x
	}
	n.Ann[path] = a
	return n
}

func scalar(t *Term) Val { return Val{T: []*Term{t}} }

// sub extracts the sub-value at leaf-path prefix (for a struct field).
func (v Val) sub(T types.Type, fieldIdx int) Val {
	st := T.Underlying().(*types.Struct)
	off := 0
	for i := 0; i < fieldIdx; i++ {
		off += len(Leaves(st.Field(i).Type()))
	}
	f := st.Field(fieldIdx)
	n := len(Leaves(f.Type()))
	out := Val{T: v.T[off : off+n : off+n]}
	pre := "." + f.Name()
	for k, a := range v.Ann {
		if k == pre || strings.HasPrefix(k, pre+".") {
			if out.Ann == nil {
				out.Ann = map[string]Ann{}
			}
			out.Ann[k[len(pre):]] = a
		}
	}
	return out
}

// setSub returns v with the field replaced.
func (v Val) setSub(T types.Type, fieldIdx int, fv Val) Val {
	st := T.Underlying().(*types.Struct)
	off := 0
	for i := 0; i < fieldIdx; i++ {
		off += len(Leaves(st.Field(i).Type()))
	}
	f := st.Field(fieldIdx)
	n := len(Leaves(f.Type()))
	if len(fv.T) != n {
		panic(fmt.Sprintf("setSub: field %s has %d leaves, value has %d", f.Name(), n, len(fv.T)))
	}
	out := Val{T: append([]*Term{}, v.T...)}
	copy(out.T[off:], fv.T)
	pre := "." + f.Name()
	for k, a := range v.Ann {
		if k == pre || strings.HasPrefix(k, pre+".") {
			continue
		}
		if out.Ann == nil {
			out.Ann = map[string]Ann{}
		}
		out.Ann[k] = a
	}
	for k, a := range fv.Ann {
		if out.Ann == nil {
			out.Ann = map[string]Ann{}
		}
		out.Ann[pre+k] = a
	}
	return out
}

// subPath extracts the sub-value for a leaf-path prefix given the root type.
func subPath(v Val, T types.Type, path string) (Val, types.Type) {
	for path != "" {
		st, ok := T.Underlying().(*types.Struct)
		if !ok {
			panic("subPath into non-struct " + T.String() + " path " + path)
		}
		name := path[1:]
		rest := ""
		if i := strings.IndexByte(name, '.'); i >= 0 {
			rest = name[i:]
			name = name[:i]
		}
		found := false
		for i := 0; i < st.NumFields(); i++ {
			if st.Field(i).Name() == name {
				v = v.sub(T, i)
				T = st.Field(i).Type()
				found = true
				break
			}
		}
		if !found {
			panic("subPath: no field " + name + " in " + T.String())
		}
		path = rest
	}
	return v, T
}

func setSubPath(v Val, T types.Type, path string, nv Val) Val {
	if path == "" {
		return nv
	}
	st := T.Underlying().(*types.Struct)
	name := path[1:]
	rest := ""
	if i := strings.IndexByte(name, '.'); i >= 0 {
		rest = name[i:]
		name = name[:i]
	}
	for i := 0; i < st.NumFields(); i++ {
		if st.Field(i).Name() == name {
			inner := setSubPath(v.sub(T, i), st.Field(i).Type(), rest, nv)
			return v.setSub(T, i, inner)
		}
	}
	panic("setSubPath: no field " + name)
}

// Slice accessors (value of slice type has leaves arr, off, len, cap).
func (v Val) slArr() *Term { return v.T[0] }
func (v Val) slOff() *Term { return v.T[1] }
func (v Val) slLen() *Term { return v.T[2] }
func (v Val) slCap() *Term { return v.T[3] }

func (v Val) ifTag() *Term { return v.T[0] }
func (v Val) ifVal() *Term { return v.T[1] }
