package main

import (
	"fmt"
	"os"
	"go/types"

	"golang.org/x/tools/go/packages"
	"golang.org/x/tools/go/ssa"
	"golang.org/x/tools/go/ssa/ssautil"
)

func main() {
	cfg := &packages.Config{Mode: packages.LoadAllSyntax, Dir: "/repo", BuildFlags: []string{"-tags=verif"}}
	pkgs, err := packages.Load(cfg, os.Args[1])
	if err != nil {
		panic(err)
	}
	prog, spkgs := ssautil.AllPackages(pkgs, ssa.NaiveForm|ssa.InstantiateGenerics)
	prog.Build()
	for _, p := range spkgs {
		if p == nil {
			continue
		}
		for _, m := range p.Members {
			if f, ok := m.(*ssa.Function); ok && f.Name() == os.Args[2] && len(os.Args) <= 3 {
				f.WriteTo(os.Stdout)
			}
		}
		if len(os.Args) > 3 {
			T := p.Type(os.Args[3])
			ms := prog.MethodSets.MethodSet(T.Type())
			_ = ms
			pms := prog.MethodSets.MethodSet(ptrTo(T))
			for i := 0; i < pms.Len(); i++ {
				f := prog.MethodValue(pms.At(i))
				if f.Name() == os.Args[2] {
					f.WriteTo(os.Stdout)
				}
			}
		}
	}
	fmt.Println("ok")
}

func ptrTo(T *ssa.Type) types.Type { return types.NewPointer(T.Type()) }
