package main

import (
	"encoding/json"
	"os"
	"os/exec"
	"path/filepath"
	"strings"

	"govc/eng"
)

// tryReplay asks the solver for a model of the failed obligation and, where a
// replay generator exists for the obligation's kind, runs the counterexample
// against the real code. It returns the replay file and the suffix of the
// VIOLATION line ("" when the failing input was confirmed on the real code).
func tryReplay(e *eng.Engine, p Prop, o *eng.Obl, replayDir, repo, why, output string) (string, string) {
	rp := filepath.Join(replayDir, p.ID+"-"+eng.SanitizeName(o.Name)+".json")
	smt := filepath.Join(replayDir, p.ID+"-"+eng.SanitizeName(o.Name)+".smt2")
	vals := o.ValueTerms()
	script := e.StandaloneScript(o, true, vals)
	os.WriteFile(smt, []byte(script), 0o644)
	sout := o.Status + " (" + o.Solver + "; the solvers did not answer sat on the full obligation)"
	if o.Status == "sat" {
		out, _ := exec.Command("z3-new", "timeout=8000", smt).CombinedOutput()
		sout = string(out)
	}
	if !strings.HasPrefix(strings.TrimSpace(sout), "sat") {
		// candidate counterexample from the quantifier-free relaxation (confirmed or discarded by the replay)
		if rs := e.RelaxedScript(o, vals); rs != "" {
			rf := filepath.Join(replayDir, p.ID+"-"+eng.SanitizeName(o.Name)+".relaxed.smt2")
			os.WriteFile(rf, []byte(rs), 0o644)
			out, _ := exec.Command("z3-new", "timeout=8000", rf).CombinedOutput()
			if strings.HasPrefix(strings.TrimSpace(string(out)), "sat") {
				sout = string(out) + "\n(model of the quantifier-free relaxation " + rf + "; full obligation: " + o.Status + ")"
			}
		}
	}
	if len(sout) > 20000 {
		sout = sout[:20000] + "\n...(truncated)"
	}
	rec := map[string]interface{}{
		"property": p.ID, "obligation": o.Name, "function": o.Fn, "at": o.Pos, "what": o.Desc,
		"reason": why, "first_status": o.Status, "smt_file": smt, "verifier_output": strings.TrimSpace(sout),
	}
	verdict := "no-failing-input-found"
	suffix := " no-failing-input-found"
	if strings.HasPrefix(strings.TrimSpace(sout), "sat") {
		if ok, detail := replayOnRealCode(e, p, o, sout, repo, replayDir); detail != "" {
			rec["replay"] = detail
			if ok {
				verdict = "confirmed"
				suffix = ""
			} else {
				verdict = "not-reproduced: no-failing-input-found"
			}
		} else {
			rec["replay"] = "no replay generator for this kind of obligation; the solver model is attached"
		}
	}
	rec["replay_verdict"] = verdict
	jb, _ := json.MarshalIndent(rec, "", " ")
	os.WriteFile(rp, jb, 0o644)
	return rp, suffix
}
