package main

import (
	"flag"
	"fmt"
	"os"
	"strings"

	"govc/eng"
)

func main() {
	if len(os.Args) > 1 && os.Args[1] == "check" {
		os.Exit(runCheck(os.Args[2:]))
	}
	repo := flag.String("repo", "/repo", "repository root")
	pkgs := flag.String("pkgs", "", "comma separated package patterns to load")
	funcs := flag.String("funcs", "", "comma separated pkgpath::key of functions to verify")
	out := flag.String("out", "/verif/out/tmp", "output dir for SMT files")
	timeout := flag.Int("timeout", 10000, "per-query timeout (ms)")
	stream := flag.Bool("stream", false, "stream model for readers")
	verbose := flag.Bool("v", false, "verbose")
	overlay := flag.String("overlay", "", "orig=replacement[,orig=replacement] source overlays (testing)")
	flag.Parse()
	ov := map[string][]byte{}
	for _, p := range strings.Split(*overlay, ",") {
		if kv := strings.SplitN(p, "=", 2); len(kv) == 2 {
			b, err := os.ReadFile(kv[1])
			if err != nil {
				panic(err)
			}
			ov[kv[0]] = b
		}
	}
	e, err := eng.Load(*repo, strings.Split(*pkgs, ","), eng.Options{Verbose: *verbose, Overlay: ov, StreamModel: *stream})
	if err != nil {
		fmt.Fprintln(os.Stderr, "load:", err)
		os.Exit(2)
	}
	var results []*eng.FuncResult
	for _, f := range strings.Split(*funcs, ",") {
		if f == "" {
			continue
		}
		results = append(results, e.VerifyFunc(f))
	}
	e.Discharge(results, eng.SolveOpts{OutDir: *out, TimeoutMS: *timeout})
	bad := 0
	for _, fr := range results {
		tot, can := fr.Counts()
		fmt.Printf("== %s: %d obligations, %d canaries, %d paths, %d returns\n", fr.Key, tot, can, fr.Paths, fr.Returns)
		for _, er := range fr.Errors {
			fmt.Printf("   ERROR %s\n", er)
			bad++
		}
		for _, o := range fr.Obls {
			if o.Canary {
				if *verbose {
					fmt.Printf("   canary %-60s %s\n", o.Name, o.Status)
				}
				continue
			}
			if o.Status != "unsat" || *verbose {
				fmt.Printf("   %-8s %-70s %s [%s] %s\n", o.Status, o.Name, o.Pos, o.Solver, o.Desc)
			}
			if o.Status != "unsat" {
				bad++
			}
		}
	}
	if *verbose {
		for _, a := range e.AssumedList() {
			fmt.Println("   assumed:", a)
		}
	}
	if bad > 0 {
		os.Exit(1)
	}
}
