package main

import "govc/eng"

// replayOnRealCode turns a solver model into a Go test against /repo (via -overlay).
// Returns (confirmed, detail); detail == "" when no generator applies.
func replayOnRealCode(e *eng.Engine, p Prop, o *eng.Obl, model string, repo, replayDir string) (bool, string) {
	return false, ""
}
