package main

import (
	"bufio"
	"encoding/json"
	"fmt"
	"os"
	"path/filepath"
	"regexp"
	"sort"
	"strconv"
	"strings"
	"time"

	"govc/eng"
)

// Prop is the per-property configuration in /verif/props/<id>.json.
type Prop struct {
	ID          string   `json:"id"`
	Packages    []string `json:"packages"`
	Functions   []string `json:"functions"`
	Extension   []string `json:"extension"`
	Side        []Side   `json:"side"`
	Assumptions []string `json:"assumptions"`
	NotDecided  string   `json:"not_decided"`
	Meta        string   `json:"meta"`
	Bounded     []string `json:"bounded"`
	MaxPaths    int      `json:"max_paths"`
	Stream      bool     `json:"stream,omitempty"` // model reader contents as a byte stream (exact consumption, C16)
}

type Side struct {
	Kind    string   `json:"kind"`
	Name    string   `json:"name"`
	Fields  []string `json:"fields"`
	Allowed []string `json:"allowed"`
	Pkg     string   `json:"pkg"`
	Globals []string `json:"globals"`
	Target  string   `json:"target"`
}

type finding struct {
	kind, prop, obl, text string
}

func loadFindings(path string) []finding {
	f, err := os.Open(path)
	if err != nil {
		return nil
	}
	defer f.Close()
	var out []finding
	sc := bufio.NewScanner(f)
	re := regexp.MustCompile(`^(finding|fixed):\s+property=(\S+)\s+(?:obligation=(\S+)\s+)?(.*)$`)
	for sc.Scan() {
		ln := strings.TrimSpace(sc.Text())
		if m := re.FindStringSubmatch(ln); m != nil {
			out = append(out, finding{m[1], m[2], m[3], m[4]})
		}
	}
	return out
}

var tildeRe = regexp.MustCompile(`~\d+$`)

func baseName(n string) string { return tildeRe.ReplaceAllString(n, "") }

func runCheck(args []string) int {
	var propID, tier, verifDir, repo string
	tier = "quick"
	verifDir = "/verif"
	repo = "/repo"
	verbose := false
	for i := 0; i < len(args); i++ {
		switch args[i] {
		case "--tier":
			i++
			tier = args[i]
		case "--verif":
			i++
			verifDir = args[i]
		case "--repo":
			i++
			repo = args[i]
		case "-v":
			verbose = true
		default:
			propID = args[i]
		}
	}
	if t := os.Getenv("VERIF_TIER"); t != "" && tier == "" {
		tier = t
	}
	seed := 0
	if s := os.Getenv("VERIF_SEED"); s != "" {
		seed, _ = strconv.Atoi(s)
	}
	t0 := time.Now()
	b, err := os.ReadFile(filepath.Join(verifDir, "props", propID+".json"))
	if err != nil {
		fmt.Fprintln(os.Stderr, "cannot read property config:", err)
		return 2
	}
	var p Prop
	if err := json.Unmarshal(b, &p); err != nil {
		fmt.Fprintln(os.Stderr, "bad property config:", err)
		return 2
	}
	funcs := append([]string{}, p.Functions...)
	timeout := 10000
	if tier == "thorough" {
		funcs = append(funcs, p.Extension...)
		timeout = 60000
	}
	outRoot := verifDir
	if o := os.Getenv("VERIF_OUT"); o != "" {
		outRoot = o // self-tests on scratch copies must not overwrite the real evidence
	}
	evPath := filepath.Join(outRoot, "evidence", p.ID+".json")
	os.MkdirAll(filepath.Dir(evPath), 0o755)
	os.Remove(evPath)
	replayDir := filepath.Join(outRoot, "replays")
	os.MkdirAll(replayDir, 0o755)
	outDir := filepath.Join(outRoot, "out", p.ID)
	os.RemoveAll(outDir)

	fail := func(obl, why, output string) string {
		rp := filepath.Join(replayDir, p.ID+"-"+sanitizeName(obl)+".json")
		rec := map[string]interface{}{"property": p.ID, "obligation": obl, "reason": why, "verifier_output": output, "replay_verdict": "no-failing-input-found"}
		jb, _ := json.MarshalIndent(rec, "", " ")
		os.WriteFile(rp, jb, 0o644)
		return rp
	}

	e, err := eng.Load(repo, p.Packages, eng.Options{MaxPaths: p.MaxPaths, StreamModel: p.Stream})
	if err != nil {
		rp := fail(p.ID+"#load", "the repository does not load/type-check with the contracts", err.Error())
		fmt.Printf("VIOLATION property=%s replay=%s no-failing-input-found\n", p.ID, rp)
		writeEvidence(evPath, p, tier, seed, nil, nil, nil, nil, time.Since(t0).Seconds(), 1, e, nil, nil)
		return 1
	}
	var results []*eng.FuncResult
	for _, f := range funcs {
		results = append(results, e.VerifyFunc(f))
	}
	e.Discharge(results, eng.SolveOpts{OutDir: outDir, TimeoutMS: timeout, CrossCheck: tier == "thorough"})
	// every lemma that was used as a summary of a nested type must itself be verified by this check
	var missingLemmas []string
	for _, l := range e.UsedLemmas {
		found := false
		for _, f := range funcs {
			if f == l {
				found = true
			}
		}
		if !found {
			missingLemmas = append(missingLemmas, l)
		}
	}

	findings := loadFindings(filepath.Join(verifDir, "known_findings.txt"))
	known := map[string]finding{}
	for _, f := range findings {
		if f.kind == "finding" && f.prop == p.ID {
			known[f.obl] = f
		}
	}
	violations := 0
	reported := map[string]bool{}
	var knownHit []string
	var failedNames []string
	report := func(obl, why, output string, o *eng.Obl) {
		bn := baseName(obl)
		if f, ok := known[bn]; ok {
			msg := fmt.Sprintf("KNOWN-FINDING: property=%s %s [%s]", p.ID, f.text, bn)
			dup := false
			for _, k := range knownHit {
				if k == msg {
					dup = true
				}
			}
			if !dup {
				knownHit = append(knownHit, msg)
				fmt.Println(msg)
			}
			return
		}
		violations++
		failedNames = append(failedNames, obl)
		// one VIOLATION line (and one replay attempt) per obligation name; further paths of the same obligation are counted only
		if reported[bn] {
			return
		}
		reported[bn] = true
		rp, suffix := "", " no-failing-input-found"
		if o != nil {
			rp, suffix = tryReplay(e, p, o, replayDir, repo, why, output)
		}
		if rp == "" {
			rp = fail(obl, why, output)
		}
		fmt.Printf("VIOLATION property=%s replay=%s%s\n", p.ID, rp, suffix)
		if verbose {
			fmt.Printf("   %s: %s\n", obl, why)
		}
	}
	total, discharged := 0, 0
	solverTime := map[string]float64{}
	solverCount := map[string]int{}
	var samples []interface{}
	var vacuity []string
	for _, l := range missingLemmas {
		total++
		report(l+"#lemma", "a nested type was summarised by this round-trip lemma, but the lemma function is not verified by this check", "", nil)
	}
	for _, fr := range results {
		for _, er := range fr.Errors {
			total++
			report(fr.Key+"#generate", "obligations could not be generated: "+er, er, nil)
		}
		nonCanary, canaries := fr.Counts()
		if nonCanary+fr.TrivialPost == 0 && len(fr.Errors) == 0 {
			total++
			report(fr.Key+"#vacuity.count", "no obligation was generated for this function", "", nil)
		}
		_ = canaries
		preOK, coverOK := false, false
		for _, o := range fr.Obls {
			if o.Canary {
				if o.Kind == "pre.sat" && o.Status != "unsat" {
					preOK = true
				}
				if o.Kind == "cover.return" && o.Status != "unsat" {
					coverOK = true
				}
				continue
			}
			total++
			solverTime[o.Solver] += o.Time
			solverCount[o.Solver]++
			if o.Status == "unsat" {
				discharged++
				if len(samples) < 6 && (o.Kind == "post" || o.Kind == "inv.preserve") {
					samples = append(samples, map[string]string{"obligation": o.Name, "at": o.Pos, "what": o.Desc, "solver": o.Solver, "smt": filepath.Join(outDir, eng.SanitizeName(fr.Key)+".smt2")})
				}
			} else {
				report(o.Name, fmt.Sprintf("obligation not discharged (%s): %s at %s", o.Status, o.Desc, o.Pos), o.Status, o)
			}
		}
		if len(fr.Errors) == 0 && nonCanary > 0 {
			if !preOK {
				total++
				vacuity = append(vacuity, fr.Key+": precondition unsatisfiable")
				report(fr.Key+"#vacuity.pre", "the precondition (with global invariants and axioms) is unsatisfiable: every obligation would hold vacuously", "", nil)
			} else if !coverOK && fr.Returns > 0 {
				total++
				vacuity = append(vacuity, fr.Key+": no reachable return")
				report(fr.Key+"#vacuity.cover", "no normal return of the function is reachable under its precondition", "", nil)
			} else {
				discharged += 0
			}
		}
	}
	// side checks
	var sideOut []map[string]interface{}
	for _, s := range p.Side {
		var r eng.SideResult
		switch s.Kind {
		case "writes_closure":
			r = e.WritesClosure(s.Name, s.Fields, s.Allowed)
		case "globals_readonly":
			r = e.GlobalsReadOnly(s.Name, s.Pkg, s.Globals)
		case "callsite_closure":
			r = e.CallSiteClosure(s.Name, s.Target, s.Allowed)
		default:
			r = eng.SideResult{Name: s.Name, OK: false, Detail: "unknown side check kind " + s.Kind}
		}
		total++
		sideOut = append(sideOut, map[string]interface{}{"name": r.Name, "kind": s.Kind, "ok": r.OK, "sites": r.Count, "detail": r.Detail})
		if r.OK {
			discharged++
		} else {
			report(p.ID+"#side."+s.Name, "side check failed: "+r.Detail, r.Detail, nil)
		}
	}
	// unused contracts are not an error, but contracts named in the function list must exist when expected
	wall := time.Since(t0).Seconds()
	writeEvidence(evPath, p, tier, seed, results, samples, sideOut, knownHit, wall, violations, e, solverTime, solverCount)
	if violations > 0 {
		return 1
	}
	fmt.Printf("OK property=%s tier=%s obligations=%d discharged=%d known_findings=%d functions=%d wall=%.1fs\n", p.ID, tier, total, discharged, len(knownHit), len(results), wall)
	return 0
}

func sanitizeName(s string) string { return eng.SanitizeName(s) }

func writeEvidence(path string, p Prop, tier string, seed int, results []*eng.FuncResult, samples []interface{}, side []map[string]interface{}, knownHit []string, wall float64, violations int, e *eng.Engine, stime map[string]float64, scount map[string]int) {
	total, discharged := 0, 0
	var fuc []map[string]interface{}
	var undischarged []string
	kinds := map[string]int{}
	var bounded []string
	for _, fr := range results {
		n, c := fr.Counts()
		d := 0
		for _, o := range fr.Obls {
			if o.Canary {
				continue
			}
			kinds[o.Kind]++
			if o.Status == "unsat" {
				d++
			} else {
				undischarged = append(undischarged, o.Name+" ("+o.Status+")")
			}
		}
		for _, er := range fr.Errors {
			undischarged = append(undischarged, fr.Key+"#generate ("+er+")")
			n++
		}
		if fr.Bounded {
			bounded = append(bounded, fr.Key)
		} else {
			total += n
			discharged += d
		}
		hasContract := fr.Contract != nil
		fuc = append(fuc, map[string]interface{}{"function": fr.Key, "obligations": n, "discharged": d, "canaries": c, "paths": fr.Paths, "contract": hasContract, "bounded": fr.Bounded})
	}
	for _, s := range side {
		total++
		if s["ok"].(bool) {
			discharged++
		}
	}
	var assumed []string
	if e != nil {
		assumed = e.AssumedList()
	}
	assumed = append(assumed, p.Assumptions...)
	if samples == nil {
		samples = []interface{}{}
	}
	cov := map[string]interface{}{
		"obligations":              total,
		"discharged":               discharged,
		"checker_cmd":              "/verif/bin/verif check " + p.ID + " --tier " + tier + "  (govc: go/ssa symbolic execution -> SMT-LIB; solvers z3-new 5.1.0, z3 4.8.12, cvc5 1.0.3)",
		"trusted_base":             append([]string{"golang.org/x/tools go/ssa (naive form) as the semantics of the Go source", "govc's model of SSA instructions (integers: mathematical with explicit wrap-around; heap: one SMT array per field/element class)", "SMT solvers z3 5.1.0 / z3 4.8.12 / cvc5 1.0.3"}, assumed...),
		"functions_under_contract": fuc,
		"obligation_kinds":         kinds,
		"samples":                  samples,
		"side_checks":              side,
		"known_findings_hit":       knownHit,
		"undischarged":             undischarged,
		"bounded":                  bounded,
		"solver_seconds":           stime,
		"solver_obligations":       scount,
		"cross_check":              crossSummary(results, tier),
		"not_decided":              p.NotDecided,
		"meta_argument":            p.Meta,
		"exhaustive":               false,
		"evaluations":              total,
		"distinct_nontrivial":      discharged,
		"rule":                     "one evaluation = one named proof obligation generated from the current source of a function under contract; non-trivial = not closed by constant folding in the generator (those are not emitted at all), distinct = distinct obligation name",
	}
	ev := map[string]interface{}{
		"property_id": p.ID,
		"tier":        tier,
		"seed":        seed,
		"level":       "proof",
		"coverage":    cov,
		"assumptions": assumed,
		"wall_s":      wall,
		"violations":  violations,
	}
	b, _ := json.MarshalIndent(ev, "", " ")
	os.WriteFile(path, b, 0o644)
}

func sortedKeys(m map[string]bool) []string {
	var ks []string
	for k := range m {
		ks = append(ks, k)
	}
	sort.Strings(ks)
	return ks
}

// crossSummary reports the thorough tier's second-solver pass.
func crossSummary(results []*eng.FuncResult, tier string) interface{} {
	if tier != "thorough" {
		return nil
	}
	agree, undecided, disagree := 0, 0, 0
	for _, fr := range results {
		for _, o := range fr.Obls {
			if o.Canary {
				continue
			}
			switch o.Cross {
			case "unsat":
				agree++
			case "sat":
				disagree++
			default:
				undecided++
			}
		}
	}
	return map[string]interface{}{"second_solver": "z3 4.8.12 on the same incremental scripts, 2 s per obligation", "confirmed_unsat": agree,
		"undecided_by_second_solver": undecided, "refuted_by_second_solver": disagree}
}
