#!/bin/sh
# regress.sh [quick|thorough] : runs every claimed check on /repo's working tree, one after the other; prints one line per property.
TIER=${1:-quick}
cd /verif
rc=0
for id in $(python3 -c "import json;print(' '.join(c['property_id'] for c in json.load(open('MANIFEST.json'))['checks']))"); do
  s=$(date +%s)
  out=$(./verif check $id --tier $TIER 2>&1); r=$?
  e=$(( $(date +%s) - s ))
  echo "$id exit=$r ${e}s $(echo "$out" | grep -c '^VIOLATION') violations; $(echo "$out" | tail -1 | cut -c1-160)"
  [ $r -ne 0 ] && rc=1
done
exit $rc
