#!/bin/sh
# Self-test corpus: applies each patch to a scratch copy of /repo under /dev/shm and
# checks that the named property's check gives the expected verdict.
#   selftest/must_fail/<Cxx>-<name>.patch  -> check must exit 1 with a VIOLATION line
#   selftest/must_pass/<Cxx>-<name>.patch  -> check must exit 0
# Usage: selftest/run.sh [Cxx|Cxx-name-prefix]   (filter by property id or patch name prefix)
DIR=$(cd "$(dirname "$0")/.." && pwd)
FILTER="$1"
SCR=/dev/shm/verif-selftest-$$
fail=0
# SELFTEST_KIND=must_fail|must_pass restricts the run to one side of the corpus
for kind in ${SELFTEST_KIND:-must_fail must_pass}; do
  for p in "$DIR"/selftest/$kind/*.patch; do
    [ -f "$p" ] || continue
    base=$(basename "$p" .patch)
    id=${base%%-*}
    if [ -n "$FILTER" ] && [ "$FILTER" != "$id" ]; then case "$base" in "$FILTER"*) ;; *) continue ;; esac; fi
    rm -rf "$SCR"; mkdir -p "$SCR"
    rsync -a --exclude .git /repo/ "$SCR/"
    if ! (cd "$SCR" && patch -p1 -s < "$p"); then echo "SELFTEST $base: patch does not apply"; fail=1; rm -rf "$SCR"; continue; fi
    out=$(VERIF_OUT="$SCR.verif" "$DIR/verif" check "$id" --repo "$SCR" 2>&1); rc=$?
    if [ $kind = must_fail ]; then
      if [ $rc -eq 1 ] && echo "$out" | grep -q "^VIOLATION property=$id "; then echo "SELFTEST $base: caught ($(echo "$out" | grep -c '^VIOLATION') obligations)"; else echo "SELFTEST $base: MISSED (rc=$rc)"; echo "$out" | tail -3; fail=1; fi
    else
      if [ $rc -eq 0 ]; then echo "SELFTEST $base: passes as expected"; else echo "SELFTEST $base: FALSE ALARM (rc=$rc)"; echo "$out" | grep VIOLATION | head -3; fail=1; fi
    fi
    rm -rf "$SCR" "$SCR.verif"
  done
done
exit $fail
