#!/bin/sh
# mk.sh <must_fail|must_pass>/<Cxx-name> <file relative to /repo> '<old text>=><new text>'  : creates a patch for the self-test corpus
rm -rf /dev/shm/mk; mkdir -p /dev/shm/mk/a /dev/shm/mk/b; d=$(dirname $2); mkdir -p /dev/shm/mk/a/$d /dev/shm/mk/b/$d; cp /repo/$2 /dev/shm/mk/a/$2
python3 - "$2" "$3" <<'PY'
import sys
f,expr=sys.argv[1],sys.argv[2]
s=open('/repo/'+f).read()
old,new=expr.split('=>',1)
assert old in s, "pattern not found: "+old
open('/dev/shm/mk/b/'+f,'w').write(s.replace(old,new,1))
PY
(cd /dev/shm/mk && diff -u a/$2 b/$2 > /verif/selftest/$1.patch); rm -rf /dev/shm/mk
